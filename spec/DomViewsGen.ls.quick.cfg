SPECIFICATION GSpec
CONSTANTS
  MaxId = 4
  NDocs = 1
  NNames = 2
  NStrs = 1
  MaxData = 2
  MaxOps = 1
  MaxKids = 4
  NIt = 0
  NRg = 0
  NLs = 1
  NWk = 0
  MaxViewOps = 2
  MaxPost = 1
  BuildKinds = {"elem"}
  GModes = {"all"}
  GListNames = {"a"}
  GKinds = {"ls"}
  GMut = {"struct"}
  GOkOnly = TRUE
  GFreshMaxId = 3
INVARIANT TreeInv
INVARIANT ViewInv
PROPERTY GIterStable
PROPERTY GRangeMoves
PROPERTY GFailedOpUnchanged
ACTION_CONSTRAINT EmitT
VIEW GView
CHECK_DEADLOCK FALSE
