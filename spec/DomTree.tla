----------------------------- MODULE DomTree -----------------------------
(* DOM Core mutation model (property C13), written to be bound to xerces-c's DOM
   implementation: one action per public DOM call, operands and results as action
   parameters, state = what the public getters expose.

   Operational layer : the actions below (DOM Level 3 Core precondition ladders; where the
                       recommendation leaves a choice the action has a SET of allowed results).
   Declarative layer : the invariants SingleParent, LinksConsistent, Acyclic, OwnerUniform,
                       DocumentShape, AttrOwnership and the action property FailedOpUnchanged.

   Named deviations modelled as the code behaves (allowed by the recommendation):
     - insertBefore(c, c) is a no-op.
     - adoptNode never moves a node between documents (answers null, nothing changes).
     - removeAttribute(name) releases the removed Attr node (its id dies).
     - re-inserting the document element into its own document may be refused
       (HIERARCHY_REQUEST_ERR) although it is not a second element.
*)
EXTENDS Naturals, Sequences, FiniteSets, TLC

CONSTANTS MaxId,      \* node ids 1..MaxId
          NDocs,      \* ids 1..NDocs are documents, present initially
          NNames,     \* names used: the first NNames of AllNames (attribute enumeration follows this order)
          NStrs,      \* operand strings used: the first NStrs of AllStrs
          MaxData,    \* generation bound on character-data length
          MaxOps,     \* generation bound on history length
          MaxKids     \* generation bound on number of children

Ids == 1..MaxId
NoNode == 0
AllNames == <<"a", "b", "c", "d">>
AllStrs == << <<"x">>, <<"y", "x">>, <<>>, <<"y">>, <<"x", "x", "y">> >>   \* strings are sequences of 1-char strings
BadName == "1x"                      \* not an XML Name: operations taking a name must refuse it
NameSeq == SubSeq(AllNames, 1, NNames)
Strs == {AllStrs[i] : i \in 1..NStrs}
Names == {NameSeq[i] : i \in 1..Len(NameSeq)}

VARIABLES kind, owner, parent, kids, name, data, attrs, ownerEl, nextId, last, nops
tree == <<kind, owner, parent, kids, name, data, attrs, ownerEl, nextId>>
vars == <<tree, last, nops>>

NoOp == [a |-> "init", args |-> <<>>, nm |-> "", s |-> <<>>, res |-> "ok", allowed |-> {"ok"}]
Op(a, args, nm, s, res, allowed) == [a |-> a, args |-> args, nm |-> nm, s |-> s, res |-> res, allowed |-> allowed]

Init == /\ kind = [n \in Ids |-> IF n <= NDocs THEN "doc" ELSE "none"]
        /\ owner = [n \in Ids |-> 0]
        /\ parent = [n \in Ids |-> 0]
        /\ kids = [n \in Ids |-> <<>>]
        /\ name = [n \in Ids |-> ""]
        /\ data = [n \in Ids |-> <<>>]
        /\ attrs = [n \in Ids |-> {}]
        /\ ownerEl = [n \in Ids |-> 0]
        /\ nextId = NDocs + 1
        /\ last = NoOp
        /\ nops = 0

---------------------------------------------------------------------------
\* helpers

Live == {n \in Ids : kind[n] # "none"}
Docs == {n \in Ids : kind[n] = "doc"}
DocOf(n) == IF kind[n] = "doc" THEN n ELSE owner[n]
RECURSIVE AncOrSelf(_, _)
AncOrSelf(a, n) == n = a \/ (parent[n] # 0 /\ AncOrSelf(a, parent[n]))
ParentKinds == {"doc", "elem", "frag"}
CharKinds == {"text", "cdata", "comment"}
KidOK(pk, ck) == CASE pk = "doc" -> ck \in {"elem", "pi", "comment"}
                   [] pk \in {"elem", "frag"} -> ck \in {"elem", "pi", "comment", "text", "cdata"}
                   [] OTHER -> FALSE
Range(s) == {s[i] : i \in 1..Len(s)}
Remove(s, x) == SelectSeq(s, LAMBDA y : y # x)
IndexOf(s, x) == CHOOSE i \in 1..Len(s) : s[i] = x
Splice(s, i, del, t) == SubSeq(s, 1, i - 1) \o t \o SubSeq(s, i + del, Len(s))   \* replace del items at i by t
ElemCount(s) == Cardinality({i \in 1..Len(s) : kind[s[i]] = "elem"})
Moved(c) == IF kind[c] = "frag" THEN kids[c] ELSE <<c>>
AttrByName(e, nm) == IF \E a \in attrs[e] : name[a] = nm THEN CHOOSE a \in attrs[e] : name[a] = nm ELSE 0
\* attributes of e in the order of their node names as strings: plain names first, then the "p:" names that
\* renameNode into a namespace produces (the harness enumerates a cloned element's attributes in this order)
ExtNameSeq == NameSeq \o [i \in 1..Len(NameSeq) |-> "p:" \o NameSeq[i]]
AttrSeq(e) == LET F[i \in 0..Len(ExtNameSeq)] ==
                    IF i = 0 THEN <<>>
                    ELSE IF AttrByName(e, ExtNameSeq[i]) # 0 THEN Append(F[i - 1], AttrByName(e, ExtNameSeq[i])) ELSE F[i - 1]
              IN F[Len(ExtNameSeq)]
MapSeq(s, F(_)) == [i \in 1..Len(s) |-> F(s[i])]

Fail(a, args, nm, s, errs) ==
    /\ UNCHANGED tree
    /\ \E e \in errs : last' = Op(a, args, nm, s, e, errs)

Done(a, args, nm, s, okset) == last' = Op(a, args, nm, s, "ok", okset)

---------------------------------------------------------------------------
\* creation

Fresh == nextId <= MaxId /\ nextId' = nextId + 1

NewNode(k, d, nm, s) ==
    /\ Fresh
    /\ kind' = [kind EXCEPT ![nextId] = k]
    /\ owner' = [owner EXCEPT ![nextId] = d]
    /\ name' = [name EXCEPT ![nextId] = nm]
    /\ data' = [data EXCEPT ![nextId] = s]
    /\ UNCHANGED <<parent, kids, attrs, ownerEl>>

CreateElement(d, nm) ==
    /\ kind[d] = "doc"
    /\ IF nm = BadName THEN Fail("createElement", <<d>>, nm, <<>>, {"INVALID_CHARACTER_ERR"})
       ELSE NewNode("elem", d, nm, <<>>) /\ Done("createElement", <<d>>, nm, <<>>, {"ok"})
CreateAttribute(d, nm) ==
    /\ kind[d] = "doc"
    /\ IF nm = BadName THEN Fail("createAttribute", <<d>>, nm, <<>>, {"INVALID_CHARACTER_ERR"})
       ELSE NewNode("attr", d, nm, <<>>) /\ Done("createAttribute", <<d>>, nm, <<>>, {"ok"})
CreateText(d, s) == kind[d] = "doc" /\ NewNode("text", d, "", s) /\ Done("createTextNode", <<d>>, "", s, {"ok"})
CreateCData(d, s) == kind[d] = "doc" /\ NewNode("cdata", d, "", s) /\ Done("createCDATASection", <<d>>, "", s, {"ok"})
CreateComment(d, s) == kind[d] = "doc" /\ NewNode("comment", d, "", s) /\ Done("createComment", <<d>>, "", s, {"ok"})
CreatePI(d, nm, s) == kind[d] = "doc" /\ NewNode("pi", d, nm, s) /\ Done("createProcessingInstruction", <<d>>, nm, s, {"ok"})
CreateFragment(d) == kind[d] = "doc" /\ NewNode("frag", d, "", <<>>) /\ Done("createDocumentFragment", <<d>>, "", <<>>, {"ok"})

---------------------------------------------------------------------------
\* child list operations

InsErrs(p, c, r) ==
    LET mv == Moved(c)
        rest == IF kind[c] = "frag" THEN kids[p] ELSE Remove(kids[p], c)
    IN  (IF DocOf(c) # DocOf(p) \/ kind[c] = "doc" THEN {"WRONG_DOCUMENT_ERR"} ELSE {})   \* a Document's ownerDocument is null
   \cup (IF \/ kind[p] \notin ParentKinds
            \/ AncOrSelf(c, p)
            \/ \E i \in 1..Len(mv) : ~KidOK(kind[p], kind[mv[i]])
            \/ kind[c] \in {"doc", "attr"}
            \/ (kind[p] = "doc" /\ ElemCount(rest) + ElemCount(mv) > 1)
         THEN {"HIERARCHY_REQUEST_ERR"} ELSE {})
   \cup (IF r # 0 /\ parent[r] # p THEN {"NOT_FOUND_ERR"} ELSE {})

\* the implementation may refuse to re-insert the document element
InsMayErrs(p, c) == IF kind[p] = "doc" /\ kind[c] = "elem" /\ parent[c] = p THEN {"HIERARCHY_REQUEST_ERR"} ELSE {}

\* kids/parent after moving c (or c's children if c is a fragment) before r (0 = at the end) under p
InsertEffect(p, c, r) ==
    LET mv == Moved(c)
        k1 == IF kind[c] = "frag" THEN [kids EXCEPT ![c] = <<>>]
              ELSE IF parent[c] # 0 THEN [kids EXCEPT ![parent[c]] = Remove(@, c)] ELSE kids
        pos == IF r = 0 THEN Len(k1[p]) + 1 ELSE IndexOf(k1[p], r)
    IN /\ kids' = [k1 EXCEPT ![p] = Splice(@, pos, 0, mv)]
       /\ parent' = [n \in Ids |-> IF n \in Range(mv) THEN p ELSE parent[n]]

InsertCommon(a, p, c, r) ==
    LET must == InsErrs(p, c, r)
        may == InsMayErrs(p, c)
        args == IF a = "appendChild" THEN <<p, c>> ELSE <<p, c, r>>
    IN IF must # {} THEN Fail(a, args, "", <<>>, must \cup may)
       ELSE \/ /\ may # {}
               /\ UNCHANGED tree
               /\ \E e \in may : last' = Op(a, args, "", <<>>, e, may \cup {"ok"})
            \/ /\ IF r = c THEN UNCHANGED <<kids, parent>>      \* insert before itself: no-op (as coded)
                  ELSE InsertEffect(p, c, r)
               /\ Len(kids'[p]) <= MaxKids
               /\ UNCHANGED <<kind, owner, name, data, attrs, ownerEl, nextId>>
               /\ Done(a, args, "", <<>>, may \cup {"ok"})

InsertBefore(p, c, r) == InsertCommon("insertBefore", p, c, r)
AppendChild(p, c) == InsertCommon("appendChild", p, c, 0)

RemoveChild(p, c) ==
    IF parent[c] # p \/ kind[p] \notin ParentKinds
    THEN Fail("removeChild", <<p, c>>, "", <<>>, {"NOT_FOUND_ERR"})
    ELSE /\ kids' = [kids EXCEPT ![p] = Remove(@, c)]
         /\ parent' = [parent EXCEPT ![c] = 0]
         /\ UNCHANGED <<kind, owner, name, data, attrs, ownerEl, nextId>>
         /\ Done("removeChild", <<p, c>>, "", <<>>, {"ok"})

RepErrs(p, n, o) ==
    LET mv == Moved(n)
        rest == Remove(IF kind[n] = "frag" THEN kids[p] ELSE Remove(kids[p], n), o)
    IN  (IF DocOf(n) # DocOf(p) \/ kind[n] = "doc" THEN {"WRONG_DOCUMENT_ERR"} ELSE {})
   \cup (IF \/ kind[p] \notin ParentKinds
            \/ AncOrSelf(n, p)
            \/ \E i \in 1..Len(mv) : ~KidOK(kind[p], kind[mv[i]])
            \/ kind[n] \in {"doc", "attr"}
            \/ (kind[p] = "doc" /\ ElemCount(rest) + ElemCount(mv) > 1)
         THEN {"HIERARCHY_REQUEST_ERR"} ELSE {})
   \cup (IF parent[o] # p THEN {"NOT_FOUND_ERR"} ELSE {})

RepMayErrs(p, n, o) == IF kind[p] = "doc" /\ kind[n] = "elem" /\ parent[n] = p /\ kind[o] # "elem"
                       THEN {"HIERARCHY_REQUEST_ERR"} ELSE {}

ReplaceChild(p, n, o) ==
    /\ n # o                      \* replaceChild(x, x): implementation dependent in DOM Level 3, not compared
    /\ LET must == RepErrs(p, n, o)
           may == RepMayErrs(p, n, o)
       IN IF must # {} THEN Fail("replaceChild", <<p, n, o>>, "", <<>>, must \cup may)
          ELSE \/ /\ may # {}
                  /\ UNCHANGED tree
                  /\ \E e \in may : last' = Op("replaceChild", <<p, n, o>>, "", <<>>, e, may \cup {"ok"})
               \/ /\ LET mv == Moved(n)
                         k1 == IF kind[n] = "frag" THEN [kids EXCEPT ![n] = <<>>]
                               ELSE IF parent[n] # 0 THEN [kids EXCEPT ![parent[n]] = Remove(@, n)] ELSE kids
                         pos == IndexOf(k1[p], o)
                     IN /\ kids' = [k1 EXCEPT ![p] = Splice(@, pos, 1, mv)]
                        /\ parent' = [x \in Ids |-> IF x \in Range(mv) THEN p ELSE IF x = o THEN 0 ELSE parent[x]]
                  /\ Len(kids'[p]) <= MaxKids
                  /\ UNCHANGED <<kind, owner, name, data, attrs, ownerEl, nextId>>
                  /\ Done("replaceChild", <<p, n, o>>, "", <<>>, may \cup {"ok"})

---------------------------------------------------------------------------
\* clone / import / adopt

RECURSIVE PreOrder(_, _), PreKids(_, _)
PreKids(s, i) == IF i > Len(s) THEN <<>> ELSE PreOrder(s[i], TRUE) \o PreKids(s, i + 1)
PreOrder(n, deep) == <<n>> \o AttrSeq(n) \o (IF deep THEN PreKids(kids[n], 1) ELSE <<>>)

\* copies of the nodes of PreOrder(n, deep) get the ids nextId, nextId+1, ... in that order
CopyTree(n, deep, d) ==
    LET po == PreOrder(n, deep)
        k == Len(po)
        F(src) == nextId + IndexOf(po, src) - 1
        NewIds == nextId..(nextId + k - 1)
        Src(m) == po[m - nextId + 1]
    IN /\ nextId + k - 1 <= MaxId
       /\ nextId' = nextId + k
       /\ kind' = [m \in Ids |-> IF m \in NewIds THEN kind[Src(m)] ELSE kind[m]]
       /\ owner' = [m \in Ids |-> IF m \in NewIds THEN d ELSE owner[m]]
       /\ name' = [m \in Ids |-> IF m \in NewIds THEN name[Src(m)] ELSE name[m]]
       /\ data' = [m \in Ids |-> IF m \in NewIds THEN data[Src(m)] ELSE data[m]]
       /\ parent' = [m \in Ids |-> IF m \in NewIds
                                   THEN (IF Src(m) = n \/ kind[Src(m)] = "attr" THEN 0 ELSE F(parent[Src(m)]))
                                   ELSE parent[m]]
       /\ kids' = [m \in Ids |-> IF m \in NewIds
                                 THEN (IF deep THEN MapSeq(kids[Src(m)], F) ELSE <<>>)
                                 ELSE kids[m]]
       /\ attrs' = [m \in Ids |-> IF m \in NewIds THEN {F(a) : a \in attrs[Src(m)]} ELSE attrs[m]]
       /\ ownerEl' = [m \in Ids |-> IF m \in NewIds
                                    THEN (IF kind[Src(m)] = "attr" /\ Src(m) # n THEN F(ownerEl[Src(m)]) ELSE 0)
                                    ELSE ownerEl[m]]

B(b) == IF b THEN 1 ELSE 0

CloneNode(n, deep) ==
    /\ kind[n] # "doc"            \* cloning a whole Document is outside this model (growth item)
    /\ CopyTree(n, deep, owner[n])
    /\ Done("cloneNode", <<n, B(deep)>>, "", <<>>, {"ok"})

ImportNode(d, n, deep) ==
    /\ kind[d] = "doc"
    /\ IF kind[n] = "doc" THEN Fail("importNode", <<d, n, B(deep)>>, "", <<>>, {"NOT_SUPPORTED_ERR"})
       ELSE CopyTree(n, deep, d) /\ Done("importNode", <<d, n, B(deep)>>, "", <<>>, {"ok"})

AdoptNode(d, n) ==
    /\ kind[d] = "doc"
    /\ IF kind[n] = "doc" THEN Fail("adoptNode", <<d, n>>, "", <<>>, {"null", "NOT_SUPPORTED_ERR"})
       ELSE IF owner[n] # d THEN Fail("adoptNode", <<d, n>>, "", <<>>, {"null"})      \* declined, as coded
       ELSE /\ IF kind[n] = "attr"
               THEN /\ attrs' = [e \in Ids |-> attrs[e] \ {n}]
                    /\ ownerEl' = [ownerEl EXCEPT ![n] = 0]
                    /\ UNCHANGED <<kids, parent>>
               ELSE /\ kids' = IF parent[n] # 0 THEN [kids EXCEPT ![parent[n]] = Remove(@, n)] ELSE kids
                    /\ parent' = [parent EXCEPT ![n] = 0]
                    /\ UNCHANGED <<attrs, ownerEl>>
            /\ UNCHANGED <<kind, owner, name, data, nextId>>
            /\ Done("adoptNode", <<d, n>>, "", <<>>, {"ok", "null"})

---------------------------------------------------------------------------
\* attributes

SetAttribute(e, nm, s) ==
    /\ kind[e] = "elem"
    /\ nm # BadName
    /\ LET a == AttrByName(e, nm) IN
       IF a # 0 THEN /\ data' = [data EXCEPT ![a] = s]
                     /\ UNCHANGED <<kind, owner, parent, kids, name, attrs, ownerEl, nextId>>
       ELSE /\ Fresh
            /\ kind' = [kind EXCEPT ![nextId] = "attr"]
            /\ owner' = [owner EXCEPT ![nextId] = owner[e]]
            /\ name' = [name EXCEPT ![nextId] = nm]
            /\ data' = [data EXCEPT ![nextId] = s]
            /\ attrs' = [attrs EXCEPT ![e] = @ \cup {nextId}]
            /\ ownerEl' = [ownerEl EXCEPT ![nextId] = e]
            /\ UNCHANGED <<parent, kids>>
    /\ Done("setAttribute", <<e>>, nm, s, {"ok"})

SetAttributeBadName(e, s) ==
    kind[e] = "elem" /\ Fail("setAttribute", <<e>>, BadName, s, {"INVALID_CHARACTER_ERR"})

\* renameNode(n, null namespace, nm): elements and attributes keep their identity; an attached Attr is taken
\* out of its element's map, renamed and put back (replacing an attribute that already has the new name).
IsNS(n) == \E x \in Names : name[n] = "p:" \o x      \* node produced by an earlier rename into the namespace
\* (renaming a node that already has a namespace takes other code paths, in place; not modelled: both renames are
\*  generated for nodes without namespace only - stated limit)
RenameNode(d, n, nm) ==
    /\ kind[d] = "doc" /\ ~IsNS(n)
    /\ LET errs == (IF owner[n] # d THEN {"WRONG_DOCUMENT_ERR"} ELSE {})
                   \cup (IF kind[n] \notin {"elem", "attr"} THEN {"NOT_SUPPORTED_ERR"} ELSE {})
                   \cup (IF nm = BadName THEN {"INVALID_CHARACTER_ERR"} ELSE {})
       IN IF errs # {} THEN Fail("renameNode", <<d, n>>, nm, <<>>, errs)
          ELSE /\ name' = [name EXCEPT ![n] = nm]
               /\ IF kind[n] = "attr" /\ ownerEl[n] # 0
                  THEN LET e == ownerEl[n]
                           b == AttrByName(e, nm)
                       IN IF b # 0 /\ b # n
                          THEN /\ attrs' = [attrs EXCEPT ![e] = @ \ {b}]
                               /\ ownerEl' = [ownerEl EXCEPT ![b] = 0]
                          ELSE UNCHANGED <<attrs, ownerEl>>
                  ELSE UNCHANGED <<attrs, ownerEl>>
               /\ UNCHANGED <<kind, owner, parent, kids, data, nextId>>
               /\ Done("renameNode", <<d, n>>, nm, <<>>, {"ok"})

\* renameNode(n, "u", "p:" nm) on a node created without namespace: a NEW node takes over (children, attributes,
\* position in the parent / in the owner element's map); the old node stays behind, detached and empty.
QName(nm) == "p:" \o nm
RenameNodeNS(d, n, nm) ==
    /\ kind[d] = "doc" /\ ~IsNS(n)
    /\ LET errs == (IF owner[n] # d THEN {"WRONG_DOCUMENT_ERR"} ELSE {})
                   \cup (IF kind[n] \notin {"elem", "attr"} THEN {"NOT_SUPPORTED_ERR"} ELSE {})
                   \cup (IF nm = BadName THEN {"INVALID_CHARACTER_ERR", "NAMESPACE_ERR"} ELSE {})
           x == nextId
       IN IF errs # {} THEN Fail("renameNodeNS", <<d, n>>, nm, <<>>, errs)
          ELSE /\ Fresh
               /\ kind' = [kind EXCEPT ![x] = kind[n]]
               /\ owner' = [owner EXCEPT ![x] = d]
               /\ name' = [name EXCEPT ![x] = QName(nm)]
               /\ IF kind[n] = "elem"
                  THEN /\ kids' = [m \in Ids |-> IF m = x THEN kids[n] ELSE IF m = n THEN <<>>
                                                  ELSE IF m = parent[n] /\ parent[n] # 0 THEN Splice(kids[m], IndexOf(kids[m], n), 1, <<x>>)
                                                  ELSE kids[m]]
                       /\ parent' = [m \in Ids |-> IF m = x THEN parent[n] ELSE IF m = n THEN 0
                                                    ELSE IF m \in Range(kids[n]) THEN x ELSE parent[m]]
                       /\ attrs' = [attrs EXCEPT ![x] = attrs[n], ![n] = {}]
                       /\ ownerEl' = [m \in Ids |-> IF m \in attrs[n] THEN x ELSE ownerEl[m]]
                       /\ data' = data
                  ELSE LET e == ownerEl[n]
                           b == IF e = 0 THEN 0 ELSE AttrByName(e, QName(nm))      \* same expanded name already there: replaced
                       IN /\ data' = [data EXCEPT ![x] = data[n], ![n] = <<>>]
                          /\ attrs' = IF e = 0 THEN attrs ELSE [attrs EXCEPT ![e] = ((@ \ {n}) \ {b}) \cup {x}]
                          /\ ownerEl' = [m \in Ids |-> IF m = x THEN e ELSE IF m = n \/ (b # 0 /\ m = b) THEN 0 ELSE ownerEl[m]]
                          /\ UNCHANGED <<kids, parent>>
               /\ Done("renameNodeNS", <<d, n>>, nm, <<>>, {"ok"})

RemoveAttribute(e, nm) ==
    /\ kind[e] = "elem"
    /\ LET a == AttrByName(e, nm) IN
       IF a = 0 THEN UNCHANGED tree
       ELSE /\ attrs' = [attrs EXCEPT ![e] = @ \ {a}]
            /\ ownerEl' = [ownerEl EXCEPT ![a] = 0]
            /\ kind' = [kind EXCEPT ![a] = "none"]          \* the removed Attr node is released (as coded)
            /\ name' = [name EXCEPT ![a] = ""]
            /\ data' = [data EXCEPT ![a] = <<>>]
            /\ owner' = [owner EXCEPT ![a] = 0]
            /\ UNCHANGED <<parent, kids, nextId>>
    /\ Done("removeAttribute", <<e>>, nm, <<>>, {"ok"})

SetAttributeNode(e, a) ==
    /\ kind[e] = "elem" /\ kind[a] = "attr"
    /\ LET errs == (IF owner[a] # owner[e] THEN {"WRONG_DOCUMENT_ERR"} ELSE {})
                   \cup (IF ownerEl[a] \notin {0, e} THEN {"INUSE_ATTRIBUTE_ERR"} ELSE {})
           b == AttrByName(e, name[a])
       IN IF errs # {} THEN Fail("setAttributeNode", <<e, a>>, "", <<>>, errs)
          ELSE /\ attrs' = [attrs EXCEPT ![e] = (@ \ {b}) \cup {a}]
               /\ ownerEl' = [x \in Ids |-> IF x = a THEN e ELSE IF x = b /\ b # 0 THEN 0 ELSE ownerEl[x]]
               /\ UNCHANGED <<kind, owner, parent, kids, name, data, nextId>>
               /\ Done("setAttributeNode", <<e, a>>, "", <<>>, {"ok"})

RemoveAttributeNode(e, a) ==
    /\ kind[e] = "elem" /\ kind[a] = "attr"
    /\ IF ownerEl[a] # e THEN Fail("removeAttributeNode", <<e, a>>, "", <<>>, {"NOT_FOUND_ERR"})
       ELSE /\ attrs' = [attrs EXCEPT ![e] = @ \ {a}]
            /\ ownerEl' = [ownerEl EXCEPT ![a] = 0]
            /\ UNCHANGED <<kind, owner, parent, kids, name, data, nextId>>
            /\ Done("removeAttributeNode", <<e, a>>, "", <<>>, {"ok"})

---------------------------------------------------------------------------
\* character data

DataOp(a, n, args, s, new) ==
    /\ Len(new) <= MaxData
    /\ data' = [data EXCEPT ![n] = new]
    /\ UNCHANGED <<kind, owner, parent, kids, name, attrs, ownerEl, nextId>>
    /\ Done(a, args, "", s, {"ok"})

Min(a, b) == IF a < b THEN a ELSE b

SetData(n, s) == kind[n] \in CharKinds \cup {"pi", "attr"} /\ DataOp("setNodeValue", n, <<n>>, s, s)
AppendData(n, s) == kind[n] \in CharKinds /\ DataOp("appendData", n, <<n>>, s, data[n] \o s)
InsertData(n, off, s) ==
    /\ kind[n] \in CharKinds
    /\ IF off > Len(data[n]) THEN Fail("insertData", <<n, off>>, "", s, {"INDEX_SIZE_ERR"})
       ELSE DataOp("insertData", n, <<n, off>>, s, Splice(data[n], off + 1, 0, s))
DeleteData(n, off, cnt) ==
    /\ kind[n] \in CharKinds
    /\ IF off > Len(data[n]) THEN Fail("deleteData", <<n, off, cnt>>, "", <<>>, {"INDEX_SIZE_ERR"})
       ELSE DataOp("deleteData", n, <<n, off, cnt>>, <<>>, Splice(data[n], off + 1, Min(cnt, Len(data[n]) - off), <<>>))
ReplaceData(n, off, cnt, s) ==
    /\ kind[n] \in CharKinds
    /\ IF off > Len(data[n]) THEN Fail("replaceData", <<n, off, cnt>>, "", s, {"INDEX_SIZE_ERR"})
       ELSE DataOp("replaceData", n, <<n, off, cnt>>, s, Splice(data[n], off + 1, Min(cnt, Len(data[n]) - off), s))

SplitText(n, off) ==
    /\ kind[n] \in {"text", "cdata"}
    /\ IF off > Len(data[n]) THEN Fail("splitText", <<n, off>>, "", <<>>, {"INDEX_SIZE_ERR"})
       ELSE /\ Fresh
            /\ kind' = [kind EXCEPT ![nextId] = kind[n]]
            /\ owner' = [owner EXCEPT ![nextId] = owner[n]]
            /\ data' = [data EXCEPT ![n] = SubSeq(@, 1, off), ![nextId] = SubSeq(data[n], off + 1, Len(data[n]))]
            /\ IF parent[n] # 0
               THEN /\ kids' = [kids EXCEPT ![parent[n]] = Splice(@, IndexOf(@, n) + 1, 0, <<nextId>>)]
                    /\ parent' = [parent EXCEPT ![nextId] = parent[n]]
                    /\ Len(kids'[parent[n]]) <= MaxKids
               ELSE UNCHANGED <<kids, parent>>
            /\ UNCHANGED <<name, attrs, ownerEl>>
            /\ Done("splitText", <<n, off>>, "", <<>>, {"ok"})

\* normalize(n): in every element/fragment/document of n's subtree, runs of adjacent Text nodes
\* (not CDATA) are merged into the first node of the run; the others are detached.
RECURSIVE NormKids(_, _)
NormKids(s, acc) ==      \* returns the new child list (ids that stay)
    IF s = <<>> THEN acc
    ELSE IF acc # <<>> /\ kind[acc[Len(acc)]] = "text" /\ kind[Head(s)] = "text"
         THEN NormKids(Tail(s), acc)
         ELSE NormKids(Tail(s), Append(acc, Head(s)))
RECURSIVE RunData(_, _)
RunData(s, i) ==        \* concatenated data of the run of text nodes starting at position i
    IF i > Len(s) \/ kind[s[i]] # "text" THEN <<>> ELSE data[s[i]] \o RunData(s, i + 1)
RECURSIVE Desc(_)
Desc(n) == {n} \cup UNION {Desc(kids[n][i]) : i \in 1..Len(kids[n])}

Normalize(n) ==
    /\ kind[n] \in ParentKinds
    /\ LET scope == {m \in Desc(n) : kind[m] \in ParentKinds}
           stay(m) == NormKids(kids[m], <<>>)
           dropped == UNION {Range(kids[m]) \ Range(stay(m)) : m \in scope}
       IN /\ kids' = [m \in Ids |-> IF m \in scope THEN stay(m) ELSE kids[m]]
          /\ parent' = [m \in Ids |-> IF m \in dropped THEN 0 ELSE parent[m]]
          /\ data' = [m \in Ids |-> IF parent[m] \in scope /\ kind[m] = "text" /\ m \notin dropped
                                    THEN RunData(kids[parent[m]], IndexOf(kids[parent[m]], m)) ELSE data[m]]
          /\ \A m \in Ids : Len(data'[m]) <= MaxData
    /\ UNCHANGED <<kind, owner, name, attrs, ownerEl, nextId>>
    /\ Done("normalize", <<n>>, "", <<>>, {"ok"})

---------------------------------------------------------------------------

OpNext ==
    \/ \E d \in Docs, nm \in Names : CreateElement(d, nm) \/ CreateAttribute(d, nm)
    \/ \E d \in Docs, s \in Strs : CreateText(d, s) \/ CreateComment(d, s) \/ CreateCData(d, s)
    \/ \E d \in Docs : CreateFragment(d) \/ CreatePI(d, NameSeq[1], <<>>)
    \/ \E p \in Live, c \in Live : kind[p] # "attr" /\ (AppendChild(p, c) \/ RemoveChild(p, c))
    \/ \E p \in Live, c \in Live, r \in Live : kind[p] # "attr" /\ (InsertBefore(p, c, r) \/ ReplaceChild(p, c, r))
    \/ \E n \in Live, deep \in BOOLEAN : CloneNode(n, deep)
    \/ \E d \in Docs, n \in Live, deep \in BOOLEAN : ImportNode(d, n, deep)
    \/ \E d \in Docs, n \in Live : AdoptNode(d, n)
    \/ \E e \in Live, nm \in Names, s \in Strs : SetAttribute(e, nm, s)
    \/ \E e \in Live, nm \in Names : RemoveAttribute(e, nm)
    \/ \E d \in Docs : CreateElement(d, BadName) \/ CreateAttribute(d, BadName)
    \/ \E e \in Live, s \in Strs : SetAttributeBadName(e, s)
    \/ \E d \in Docs, n \in Live, nm \in Names \cup {BadName} : RenameNode(d, n, nm) \/ RenameNodeNS(d, n, nm)
    \/ \E e \in Live, a \in Live : SetAttributeNode(e, a) \/ RemoveAttributeNode(e, a)
    \/ \E n \in Live, s \in Strs : SetData(n, s) \/ AppendData(n, s)
    \/ \E n \in Live, off \in 0..(MaxData + 1), s \in Strs : InsertData(n, off, s)
    \/ \E n \in Live, off \in 0..(MaxData + 1), cnt \in 0..2 : DeleteData(n, off, cnt)
    \/ \E n \in Live, off \in 0..(MaxData + 1), cnt \in 0..2, s \in Strs : ReplaceData(n, off, cnt, s)
    \/ \E n \in Live, off \in 0..(MaxData + 1) : SplitText(n, off)
    \/ \E n \in Live : Normalize(n)

Next == nops < MaxOps /\ nops' = nops + 1 /\ OpNext
Spec == Init /\ [][Next]_vars

---------------------------------------------------------------------------
\* declarative layer (property C13 on the specification)

TypeOK == /\ \A n \in Ids : kind[n] \in {"none", "doc", "elem", "text", "cdata", "comment", "pi", "attr", "frag"}
          /\ nextId \in 1..(MaxId + 1)
          /\ \A n \in Ids : n >= nextId => kind[n] = "none"

SingleParent == \A n \in Live : Cardinality({p \in Live : n \in Range(kids[p])}) <= 1
NoDupKids == \A p \in Live : \A i, j \in 1..Len(kids[p]) : i # j => kids[p][i] # kids[p][j]
LinksConsistent == \A n \in Live, p \in Live : (n \in Range(kids[p])) <=> (parent[n] = p)
RECURSIVE Depth(_, _)
Depth(n, fuel) == IF parent[n] = 0 THEN 0 ELSE IF fuel = 0 THEN MaxId + 1 ELSE 1 + Depth(parent[n], fuel - 1)
Acyclic == \A n \in Live : Depth(n, MaxId) <= MaxId
OwnerUniform == \A n \in Live : /\ (kind[n] = "doc" <=> owner[n] = 0)
                                /\ (parent[n] # 0 => DocOf(parent[n]) = DocOf(n))
                                /\ (kind[n] = "attr" /\ ownerEl[n] # 0 => owner[ownerEl[n]] = owner[n])
DocumentShape == \A d \in Docs : /\ ElemCount(kids[d]) <= 1
                                 /\ \A i \in 1..Len(kids[d]) : KidOK("doc", kind[kids[d][i]])
KidsLegal == \A p \in Live : /\ (kids[p] # <<>> => kind[p] \in ParentKinds)
                             /\ \A i \in 1..Len(kids[p]) : KidOK(kind[p], kind[kids[p][i]])
AttrOwnership == /\ \A e \in Live : \A a \in attrs[e] : kind[a] = "attr" /\ ownerEl[a] = e
                 /\ \A a \in Live : (kind[a] = "attr" /\ ownerEl[a] # 0) => a \in attrs[ownerEl[a]]
                 /\ \A e \in Live : \A a, b \in attrs[e] : a # b => name[a] # name[b]
                 /\ \A e \in Live : attrs[e] # {} => kind[e] = "elem"
TreeInv == TypeOK /\ SingleParent /\ NoDupKids /\ LinksConsistent /\ Acyclic /\ OwnerUniform
           /\ DocumentShape /\ KidsLegal /\ AttrOwnership

FailedOpUnchanged == [][last'.res # "ok" => UNCHANGED tree]_vars

---------------------------------------------------------------------------
\* projection (binding contract, DESIGN.md appendix A): one record per allocated id
Proj == [n \in 1..(nextId - 1) |->
           [k |-> kind[n], o |-> owner[n], p |-> parent[n], c |-> kids[n], n |-> name[n],
            v |-> data[n], a |-> attrs[n], e |-> ownerEl[n]]]
ProjNext == [n \in 1..(nextId' - 1) |->
           [k |-> kind'[n], o |-> owner'[n], p |-> parent'[n], c |-> kids'[n], n |-> name'[n],
            v |-> data'[n], a |-> attrs'[n], e |-> ownerEl'[n]]]
View == tree
=============================================================================
