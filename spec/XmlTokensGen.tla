---------------------------- MODULE XmlTokensGen ----------------------------
(* Binder T for XmlTokens: every TERMINAL state of the exploration (first fatal error, or end of input) is one
   test case.  One JSON line per case:
     <<profile, tokens, fatal with namespaces off, fatal with namespaces on, error class, phase, infoset>>
   infoset = the canonical event list of an accepted document (XmlTokens!Infoset, checked equal to the machine's
   output by invariant InfosetAgree), events <<kind, name, characters, attributes, flag, line>>.
   For a case that ends at the first fatal error the tokens are the canonical COMPLETION of the prefix (open elements
   closed, a root supplied), so that the violating token is the document's only defect (Agree says it is not well-formed);
   a removed check is then not masked by "end of input inside an element".
   The harness renders the tokens to bytes and parses them under every API x scanner x namespace setting.
   The invariants of XmlTokens (Agree, AgreeNS) are checked in the same run, so every emitted verdict is one on
   which the machine and the grammar agree. *)
EXTENDS XmlTokens, Json
EmitT == (st'.fatal \/ st'.phase = "done")
            => PrintT(ToJson(<<prof, IF st'.phase = "done" THEN toks' ELSE CompletionOf(toks', st'),
                             st'.fatal, st'.fatal \/ st'.nsfatal, st'.why, st'.phase,
                             IF st'.fatal THEN <<>> ELSE st'.out>>))
\* property C03 only needs the accepted documents (accepted at least with namespaces off)
EmitOK == (st'.phase = "done" /\ ~st'.fatal)
            => PrintT(ToJson(<<prof, toks', st'.fatal, st'.fatal \/ st'.nsfatal, st'.why, st'.phase, st'.out>>))
=============================================================================
