SPECIFICATION GSpec
CONSTANTS
  MaxId = 4
  NDocs = 1
  NNames = 1
  NStrs = 1
  MaxData = 2
  MaxOps = 1
  MaxKids = 4
  NIt = 0
  NRg = 1
  NLs = 0
  NWk = 0
  MaxViewOps = 2
  MaxPost = 0
  BuildKinds = {"elem", "text"}
  GModes = {"all"}
  GListNames = {"a", "*"}
  GKinds = {"rg"}
  GMut = {"struct", "text"}
  GOkOnly = TRUE
  GFreshMaxId = 3
INVARIANT TreeInv
INVARIANT ViewInv
PROPERTY GIterStable
PROPERTY GRangeMoves
PROPERTY GFailedOpUnchanged
ACTION_CONSTRAINT EmitT
VIEW GView
CHECK_DEADLOCK FALSE
