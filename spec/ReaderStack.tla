----------------------------- MODULE ReaderStack -----------------------------
(* ReaderMgr's entity stack driven by a scanner that expands entity references.

   OPERATIONAL (as coded): Push with the recursion check that skips the current reader, Pop at the end of an
   entity, CleanBackTo after an error, Reset at the end of the parse, and the scanner's expansion counter
   (++count > limit => fatal error, no push) when a SecurityManager is installed.
   DECLARATIVE: whatever the entity declarations (any reference graph, cyclic or not)
       BoundedDepth    depth <= 2 * |Entities| + 1       (a recursive reference is refused at the latest one level late)
       NumsIncreasing  reader numbers grow from the bottom of the stack to the top and are never reused
       CountBounded    count <= limit whenever a limit is installed; pushes of entities <= limit
       ResetEmpty      after Reset nothing is open
       Terminates      every parse ends: a reference cycle is reported (RecursionReported), never followed for ever. *)
EXTENDS ReaderStackOps, FiniteSets, TLC
CONSTANTS Entities,     \* entity names (small integers)
          MaxRefs,      \* references per replacement text
          Limits        \* expansion limits explored; 0 = no SecurityManager
VARIABLES refs,         \* refs[e] = the entities referenced by e's replacement text, in order; refs[0] = the document
          m,            \* the manager record
          pos,          \* pos[i] = next reference to scan in the i-th open reader (aligned with All(m))
          count, limit, pushes,
          phase,        \* "scan" | "fatal" | "done"
          why           \* "" | "recursion" | "limit"
vars == <<refs, m, pos, count, limit, pushes, phase, why>>
Names == Entities \cup {0}
RefSeqs == UNION {[1..k -> Entities] : k \in 0..MaxRefs}
Init == /\ refs \in [Names -> RefSeqs]
        /\ m = [PushOp(NewMgr, 1, NoEnt) EXCEPT !.nextNum = 2]          \* the document entity is reader 1
        /\ pos = <<1>> /\ count = 0 /\ limit \in Limits /\ pushes = 0 /\ phase = "scan" /\ why = ""
CurName == IF m.cur.ent = NoEnt THEN 0 ELSE m.cur.ent
Top == Len(pos)
(* scanEntityRef AS CODED: createReader (takes a reader number), pushReader, and only then the counter
   (++count > limit => fatal error, counter reset) - so one reader more than the limit can be pushed *)
Expand == /\ phase = "scan" /\ pos[Top] <= Len(refs[CurName])
          /\ LET e == refs[CurName][pos[Top]] IN
             IF PushAccepts(m, e)
             THEN /\ m' = [PushOp(m, m.nextNum, e) EXCEPT !.nextNum = @ + 1]
                  /\ pos' = [pos EXCEPT ![Top] = @ + 1] \o <<1>>
                  /\ pushes' = pushes + 1
                  /\ IF limit > 0 /\ count + 1 > limit
                     THEN phase' = "fatal" /\ why' = "limit" /\ count' = 0
                     ELSE count' = (IF limit > 0 THEN count + 1 ELSE count) /\ UNCHANGED <<phase, why>>
             ELSE /\ m' = [m EXCEPT !.nextNum = @ + 1]          \* the refused reader had its number
                  /\ phase' = "fatal" /\ why' = "recursion" /\ UNCHANGED <<pos, pushes, count>>
          /\ UNCHANGED <<refs, limit>>
(* end of the current entity: popReader; end of the document entity: the parse is over *)
Pop == /\ phase = "scan" /\ pos[Top] > Len(refs[CurName])
       /\ IF PopPre(m) THEN m' = PopOp(m) /\ pos' = SubSeq(pos, 1, Top - 1) /\ UNCHANGED phase
                       ELSE phase' = "done" /\ UNCHANGED <<m, pos>>
       /\ UNCHANGED <<refs, count, limit, pushes, why>>
(* after a fatal error the stack is cleaned back to the document reader, then the ReaderMgrResetType janitor resets *)
CleanBackTo == /\ phase = "fatal" /\ m.cur # NoEntry /\ m.cur.num # 1
               /\ m' = CleanOp(m, 1) /\ pos' = <<pos[1]>>
               /\ UNCHANGED <<refs, count, limit, pushes, phase, why>>
Reset == /\ phase \in {"fatal", "done"} /\ m.cur # NoEntry /\ (phase = "fatal" => m.cur.num = 1)
         /\ m' = ResetOp(m) /\ pos' = <<>>
         /\ UNCHANGED <<refs, count, limit, pushes, phase, why>>
Next == Expand \/ Pop \/ CleanBackTo \/ Reset
Spec == Init /\ [][Next]_vars /\ WF_vars(Next)

(* ---------- properties ---------- *)
BoundedDepth == Depth(m) <= 2 * Cardinality(Entities) + 1
StackInv == StackInvR(m)
CountBounded == limit > 0 => (count <= limit /\ pushes <= limit + 1)
ResetEmpty == (m.cur = NoEntry) => (m.stack = <<>> /\ phase \in {"fatal", "done"})
PosAligned == Len(pos) = Depth(m)
(* reachability in the reference graph: a cycle that the document can reach *)
RECURSIVE Reach(_, _)
Reach(S, n) == IF n = 0 THEN S ELSE Reach(S \cup UNION {{refs[x][i] : i \in 1..Len(refs[x])} : x \in S}, n - 1)
Reachable == Reach({0}, Cardinality(Entities) + 1)
Cyclic == \E e \in Reachable \ {0} : e \in Reach({refs[e][i] : i \in 1..Len(refs[e])}, Cardinality(Entities))
(* a parse of a document with a reachable reference cycle never ends normally; an acyclic one never reports recursion *)
RecursionReported == /\ (phase = "done" => ~Cyclic)
                     /\ (why = "recursion" => Cyclic)
Terminates == <>(m.cur = NoEntry)
=============================================================================
