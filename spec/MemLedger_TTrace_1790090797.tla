---- MODULE MemLedger_TTrace_1790090797 ----
EXTENDS Sequences, TLCExt, Toolbox, Naturals, TLC, MemLedger

_expression ==
    LET MemLedger_TEExpression == INSTANCE MemLedger_TEExpression
    IN MemLedger_TEExpression!expression
----

_trace ==
    LET MemLedger_TETrace == INSTANCE MemLedger_TETrace
    IN MemLedger_TETrace!trace
----

_inv ==
    ~(
        TLCGet("level") = Len(_TETrace)
        /\
        phase = ("idle")
        /\
        owner = (<<<<"obj", 1>>, "free", "free">>)
        /\
        userDeleted = (FALSE)
        /\
        outstanding = ([g |-> {}, p |-> {1}])
        /\
        last = (<<"Create", 1>>)
        /\
        initCount = (1)
        /\
        mgrAdopted = (TRUE)
        /\
        globalMgr = ("default")
        /\
        prog = ({})
        /\
        objs = (<<"parser", "none">>)
        /\
        call = (0)
        /\
        nops = (3)
        /\
        mgrOf = (<<"p", "g", "g">>)
    )
----

_init ==
    /\ phase = _TETrace[1].phase
    /\ globalMgr = _TETrace[1].globalMgr
    /\ outstanding = _TETrace[1].outstanding
    /\ prog = _TETrace[1].prog
    /\ nops = _TETrace[1].nops
    /\ mgrOf = _TETrace[1].mgrOf
    /\ mgrAdopted = _TETrace[1].mgrAdopted
    /\ last = _TETrace[1].last
    /\ objs = _TETrace[1].objs
    /\ initCount = _TETrace[1].initCount
    /\ userDeleted = _TETrace[1].userDeleted
    /\ call = _TETrace[1].call
    /\ owner = _TETrace[1].owner
----

_next ==
    /\ \E i,j \in DOMAIN _TETrace:
        /\ \/ /\ j = i + 1
              /\ i = TLCGet("level")
        /\ phase  = _TETrace[i].phase
        /\ phase' = _TETrace[j].phase
        /\ globalMgr  = _TETrace[i].globalMgr
        /\ globalMgr' = _TETrace[j].globalMgr
        /\ outstanding  = _TETrace[i].outstanding
        /\ outstanding' = _TETrace[j].outstanding
        /\ prog  = _TETrace[i].prog
        /\ prog' = _TETrace[j].prog
        /\ nops  = _TETrace[i].nops
        /\ nops' = _TETrace[j].nops
        /\ mgrOf  = _TETrace[i].mgrOf
        /\ mgrOf' = _TETrace[j].mgrOf
        /\ mgrAdopted  = _TETrace[i].mgrAdopted
        /\ mgrAdopted' = _TETrace[j].mgrAdopted
        /\ last  = _TETrace[i].last
        /\ last' = _TETrace[j].last
        /\ objs  = _TETrace[i].objs
        /\ objs' = _TETrace[j].objs
        /\ initCount  = _TETrace[i].initCount
        /\ initCount' = _TETrace[j].initCount
        /\ userDeleted  = _TETrace[i].userDeleted
        /\ userDeleted' = _TETrace[j].userDeleted
        /\ call  = _TETrace[i].call
        /\ call' = _TETrace[j].call
        /\ owner  = _TETrace[i].owner
        /\ owner' = _TETrace[j].owner

\* Uncomment the ASSUME below to write the states of the error trace
\* to the given file in Json format. Note that you can pass any tuple
\* to `JsonSerialize`. For example, a sub-sequence of _TETrace.
    \* ASSUME
    \*     LET J == INSTANCE Json
    \*         IN J!JsonSerialize("MemLedger_TTrace_1790090797.json", _TETrace)

=============================================================================

 Note that you can extract this module `MemLedger_TEExpression`
  to a dedicated file to reuse `expression` (the module in the 
  dedicated `MemLedger_TEExpression.tla` file takes precedence 
  over the module `MemLedger_TEExpression` below).

---- MODULE MemLedger_TEExpression ----
EXTENDS Sequences, TLCExt, Toolbox, Naturals, TLC, MemLedger

expression == 
    [
        \* To hide variables of the `MemLedger` spec from the error trace,
        \* remove the variables below.  The trace will be written in the order
        \* of the fields of this record.
        phase |-> phase
        ,globalMgr |-> globalMgr
        ,outstanding |-> outstanding
        ,prog |-> prog
        ,nops |-> nops
        ,mgrOf |-> mgrOf
        ,mgrAdopted |-> mgrAdopted
        ,last |-> last
        ,objs |-> objs
        ,initCount |-> initCount
        ,userDeleted |-> userDeleted
        ,call |-> call
        ,owner |-> owner
        
        \* Put additional constant-, state-, and action-level expressions here:
        \* ,_stateNumber |-> _TEPosition
        \* ,_phaseUnchanged |-> phase = phase'
        
        \* Format the `phase` variable as Json value.
        \* ,_phaseJson |->
        \*     LET J == INSTANCE Json
        \*     IN J!ToJson(phase)
        
        \* Lastly, you may build expressions over arbitrary sets of states by
        \* leveraging the _TETrace operator.  For example, this is how to
        \* count the number of times a spec variable changed up to the current
        \* state in the trace.
        \* ,_phaseModCount |->
        \*     LET F[s \in DOMAIN _TETrace] ==
        \*         IF s = 1 THEN 0
        \*         ELSE IF _TETrace[s].phase # _TETrace[s-1].phase
        \*             THEN 1 + F[s-1] ELSE F[s-1]
        \*     IN F[_TEPosition - 1]
    ]

=============================================================================



Parsing and semantic processing can take forever if the trace below is long.
 In this case, it is advised to uncomment the module below to deserialize the
 trace from a generated binary file.

\*
\*---- MODULE MemLedger_TETrace ----
\*EXTENDS IOUtils, TLC, MemLedger
\*
\*trace == IODeserialize("MemLedger_TTrace_1790090797.bin", TRUE)
\*
\*=============================================================================
\*

---- MODULE MemLedger_TETrace ----
EXTENDS TLC, MemLedger

trace == 
    <<
    ([phase |-> "idle",owner |-> <<"free", "free", "free">>,userDeleted |-> FALSE,outstanding |-> [g |-> {}, p |-> {}],last |-> <<"init">>,initCount |-> 0,mgrAdopted |-> FALSE,globalMgr |-> "none",prog |-> {},objs |-> <<"none", "none">>,call |-> 0,nops |-> 0,mgrOf |-> <<"g", "g", "g">>]),
    ([phase |-> "init",owner |-> <<"free", "free", "free">>,userDeleted |-> FALSE,outstanding |-> [g |-> {}, p |-> {}],last |-> <<"InitCall", FALSE>>,initCount |-> 0,mgrAdopted |-> TRUE,globalMgr |-> "default",prog |-> {},objs |-> <<"none", "none">>,call |-> 0,nops |-> 1,mgrOf |-> <<"g", "g", "g">>]),
    ([phase |-> "idle",owner |-> <<"free", "free", "free">>,userDeleted |-> FALSE,outstanding |-> [g |-> {}, p |-> {}],last |-> <<"Init", 1>>,initCount |-> 1,mgrAdopted |-> TRUE,globalMgr |-> "default",prog |-> {},objs |-> <<"none", "none">>,call |-> 0,nops |-> 2,mgrOf |-> <<"g", "g", "g">>]),
    ([phase |-> "idle",owner |-> <<<<"obj", 1>>, "free", "free">>,userDeleted |-> FALSE,outstanding |-> [g |-> {}, p |-> {1}],last |-> <<"Create", 1>>,initCount |-> 1,mgrAdopted |-> TRUE,globalMgr |-> "default",prog |-> {},objs |-> <<"parser", "none">>,call |-> 0,nops |-> 3,mgrOf |-> <<"p", "g", "g">>])
    >>
----


=============================================================================

---- CONFIG MemLedger_TTrace_1790090797 ----
CONSTANTS
    Blocks = { 1 , 2 , 3 }
    Objs = { 1 , 2 }
    MaxOps = 9

INVARIANT
    _inv

CHECK_DEADLOCK
    \* CHECK_DEADLOCK off because of PROPERTY or INVARIANT above.
    FALSE

INIT
    _init

NEXT
    _next

CONSTANT
    _TETrace <- _trace

ALIAS
    _expression
=============================================================================
\* Generated on Tue Sep 22 15:27:25 UTC 2026