SPECIFICATION Spec
CONSTANTS
  Apis = {"SAX2", "DOM", "DOMLS"}
  Scanners = {"IG", "WF", "DG", "SG"}
  Resolvers = {"null", "part"}
  Vals = {"never", "auto"}
  NsSet = {TRUE}
  SubsetForms = {"rel", "path"}
  HintForms = {"rel"}
  HintKinds = {"none", "nsl", "sl", "nsld"}
INVARIANT TypeOK
INVARIANT OnlyPermittedOpened
INVARIANT NothingWhenDisabled
INVARIANT ResolverFirst
INVARIANT SourceReplacesDefault
INVARIANT BaseIsContainingEntity
INVARIANT AnswersFollowOffers
INVARIANT EmitT
CHECK_DEADLOCK FALSE
