SPECIFICATION Spec
CONSTANTS
  Fams = {"F3a", "F3b", "F3c"}
  LenCap = 5
  Cases <- MCCases
INVARIANT CasesWellFormed
INVARIANT VerdictMatchesDeclarative
INVARIANT VerdictIndependentOfOrder
INVARIANT RunAgrees
INVARIANT StackInv
INVARIANT DupReported
CHECK_DEADLOCK FALSE
