---- MODULE DtdValidity_TTrace_1790078051 ----
EXTENDS Sequences, TLCExt, DtdValidity, Toolbox, Naturals, TLC

_expression ==
    LET DtdValidity_TEExpression == INSTANCE DtdValidity_TEExpression
    IN DtdValidity_TEExpression!expression
----

_trace ==
    LET DtdValidity_TETrace == INSTANCE DtdValidity_TETrace
    IN DtdValidity_TETrace!trace
----

_inv ==
    ~(
        TLCGet("level") = Len(_TETrace)
        /\
        phase = ("content")
        /\
        st = ([ids |-> {}, refs |-> {}, errs |-> {}, eff |-> <<>>])
        /\
        doc = (<<>>)
        /\
        scen = ([decls |-> <<[ty |-> "ID", en |-> <<>>, df |-> "implied", el |-> 1, att |-> 1, dv |-> <<>>, ext |-> FALSE], [ty |-> "IDREF", en |-> <<>>, df |-> "default", el |-> 1, att |-> 2, dv |-> <<1>>, ext |-> FALSE], [ty |-> "IDREFS", en |-> <<>>, df |-> "implied", el |-> 1, att |-> 3, dv |-> <<>>, ext |-> FALSE]>>, doctype |-> 1, sa |-> FALSE])
    )
----

_init ==
    /\ phase = _TETrace[1].phase
    /\ doc = _TETrace[1].doc
    /\ st = _TETrace[1].st
    /\ scen = _TETrace[1].scen
----

_next ==
    /\ \E i,j \in DOMAIN _TETrace:
        /\ \/ /\ j = i + 1
              /\ i = TLCGet("level")
        /\ phase  = _TETrace[i].phase
        /\ phase' = _TETrace[j].phase
        /\ doc  = _TETrace[i].doc
        /\ doc' = _TETrace[j].doc
        /\ st  = _TETrace[i].st
        /\ st' = _TETrace[j].st
        /\ scen  = _TETrace[i].scen
        /\ scen' = _TETrace[j].scen

\* Uncomment the ASSUME below to write the states of the error trace
\* to the given file in Json format. Note that you can pass any tuple
\* to `JsonSerialize`. For example, a sub-sequence of _TETrace.
    \* ASSUME
    \*     LET J == INSTANCE Json
    \*         IN J!JsonSerialize("DtdValidity_TTrace_1790078051.json", _TETrace)

=============================================================================

 Note that you can extract this module `DtdValidity_TEExpression`
  to a dedicated file to reuse `expression` (the module in the 
  dedicated `DtdValidity_TEExpression.tla` file takes precedence 
  over the module `DtdValidity_TEExpression` below).

---- MODULE DtdValidity_TEExpression ----
EXTENDS Sequences, TLCExt, DtdValidity, Toolbox, Naturals, TLC

expression == 
    [
        \* To hide variables of the `DtdValidity` spec from the error trace,
        \* remove the variables below.  The trace will be written in the order
        \* of the fields of this record.
        phase |-> phase
        ,doc |-> doc
        ,st |-> st
        ,scen |-> scen
        
        \* Put additional constant-, state-, and action-level expressions here:
        \* ,_stateNumber |-> _TEPosition
        \* ,_phaseUnchanged |-> phase = phase'
        
        \* Format the `phase` variable as Json value.
        \* ,_phaseJson |->
        \*     LET J == INSTANCE Json
        \*     IN J!ToJson(phase)
        
        \* Lastly, you may build expressions over arbitrary sets of states by
        \* leveraging the _TETrace operator.  For example, this is how to
        \* count the number of times a spec variable changed up to the current
        \* state in the trace.
        \* ,_phaseModCount |->
        \*     LET F[s \in DOMAIN _TETrace] ==
        \*         IF s = 1 THEN 0
        \*         ELSE IF _TETrace[s].phase # _TETrace[s-1].phase
        \*             THEN 1 + F[s-1] ELSE F[s-1]
        \*     IN F[_TEPosition - 1]
    ]

=============================================================================



Parsing and semantic processing can take forever if the trace below is long.
 In this case, it is advised to uncomment the module below to deserialize the
 trace from a generated binary file.

\*
\*---- MODULE DtdValidity_TETrace ----
\*EXTENDS IOUtils, DtdValidity, TLC
\*
\*trace == IODeserialize("DtdValidity_TTrace_1790078051.bin", TRUE)
\*
\*=============================================================================
\*

---- MODULE DtdValidity_TETrace ----
EXTENDS DtdValidity, TLC

trace == 
    <<
    ([phase |-> "dtd",st |-> [ids |-> {}, refs |-> {}, errs |-> {}, eff |-> <<>>],doc |-> <<>>,scen |-> [decls |-> <<[ty |-> "ID", en |-> <<>>, df |-> "implied", el |-> 1, att |-> 1, dv |-> <<>>, ext |-> FALSE], [ty |-> "IDREF", en |-> <<>>, df |-> "default", el |-> 1, att |-> 2, dv |-> <<1>>, ext |-> FALSE], [ty |-> "IDREFS", en |-> <<>>, df |-> "implied", el |-> 1, att |-> 3, dv |-> <<>>, ext |-> FALSE]>>, doctype |-> 1, sa |-> FALSE]]),
    ([phase |-> "content",st |-> [ids |-> {}, refs |-> {}, errs |-> {}, eff |-> <<>>],doc |-> <<>>,scen |-> [decls |-> <<[ty |-> "ID", en |-> <<>>, df |-> "implied", el |-> 1, att |-> 1, dv |-> <<>>, ext |-> FALSE], [ty |-> "IDREF", en |-> <<>>, df |-> "default", el |-> 1, att |-> 2, dv |-> <<1>>, ext |-> FALSE], [ty |-> "IDREFS", en |-> <<>>, df |-> "implied", el |-> 1, att |-> 3, dv |-> <<>>, ext |-> FALSE]>>, doctype |-> 1, sa |-> FALSE]])
    >>
----


=============================================================================

---- CONFIG DtdValidity_TTrace_1790078051 ----
CONSTANTS
    Family = "idref"
    NTok = 2
    MaxVal = 2
    MaxElems = 3

INVARIANT
    _inv

CHECK_DEADLOCK
    \* CHECK_DEADLOCK off because of PROPERTY or INVARIANT above.
    FALSE

INIT
    _init

NEXT
    _next

CONSTANT
    _TETrace <- _trace

ALIAS
    _expression
=============================================================================
\* Generated on Tue Sep 22 11:54:30 UTC 2026