SPECIFICATION Spec
CONSTANTS
  NF = 3
  Budget = 4
  DirCodes = {1}
  Odd = FALSE
INVARIANT XIncludeInv
INVARIANT EmitCase
