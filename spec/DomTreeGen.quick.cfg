SPECIFICATION GSpec
CONSTANTS
  MaxId = 4
  NDocs = 1
  NNames = 2
  NStrs = 1
  MaxData = 2
  MaxOps = 1
  MaxKids = 4
ACTION_CONSTRAINT EmitT
VIEW GView
CHECK_DEADLOCK FALSE
