--------------------------- MODULE ConcurrencyTrace ---------------------------
(* Binder V for Concurrency: the totally ordered event log of a real multi-threaded execution
   (harness/conc_harness v: XMLMutexMgr wrapper + H8 hooks, sequence numbers drawn while the mutex is held) is
   accepted iff every line is explained by the action of the Concurrency specification it names:

     Lock{t,m,k,obj,x}   Enter / EnterFirst of the call of class k (the harness copies k, obj, x from the first access
                         of the same critical section; "RO" = a section with no hooked access: the read-only
                         operations of XMLSynchronizedStringPool)           - requires the mutex to be FREE
     Unlock{t,m}         Leave                                               - requires t to be the owner
     Acc{t,site,..}      the access action of that site, with its logged value; a write needs the guarding mutex
                         in the writer's hands (GuardedWrite is evaluated on every step), so a deleted XMLMutexLock
                         is rejected at the first write, whatever the schedule was.

   The configuration uses LazyMap = TRUE (the code as pinned builds the match map of a lazily complemented token
   on first use - binder W reports that deviation deterministically); here a use of the token between map_alloc
   and map_done, or a second map_alloc, is a positive observation of a half-built object and is rejected.
   Unlocked fast-path reads are logged after the fact, so the two orders "read before publication, logged after"
   and "read after publication, logged before the publisher's own log line" are both explained (GrFastStale,
   GrFastEarly) - no order between an unlocked read and a concurrent locked write is assumed.
   Mutex handles are bound to the specification's mutex names by the first use (mname), injectively. *)
EXTENDS Concurrency, Json, IOUtils
Tr == ndJsonDeserialize(IOEnv.TRACE)
VARIABLES l, mname
tvars == <<vars, l, mname>>
MaxMutex == 64
E == Tr[l]
PoolName(i) == "SP" \o ToString(i)
Bind(m, name) == /\ mname[m] \in {"", name}
                 /\ \A m2 \in DOMAIN mname : mname[m2] = name => m2 = m
                 /\ mname' = [mname EXCEPT ![m] = name]
Ev(e) == l <= Len(Tr) /\ E.e = e /\ l' = l + 1 /\ UNCHANGED prog
AccEv(site) == Ev("Acc") /\ E.site = site
OpOf(e) == IF e.k \in {"SPA", "RO"} THEN Op(IF e.k = "RO" THEN "SPG" ELSE "SPA", 0, PoolName(e.obj), e.x)
           ELSE IF e.k = "GR" THEN Op("GR", e.obj, "", 0) ELSE Op(e.k, 0, "", 0)

TLockFirst == /\ Ev("Lock") /\ E.k \in {"CI", "DT", "RG", "LCP"}
              /\ EnterFirst(E.t, OpOf(E)) /\ Bind(E.m, MutexOf(OpOf(E)))
\* the unlocked look into the constant pool has no hook: it is taken silently just before the thread's Lock line
TSpConst == /\ l <= Len(Tr) /\ E.e = "Lock" /\ E.k \in {"SPA", "RO"} /\ pc[E.t] = "idle"
            /\ SpConst(E.t, OpOf(E)) /\ UNCHANGED <<l, mname, prog>>
TLockLater == /\ Ev("Lock") /\ E.k \in {"SPA", "RO", "GR"}
              /\ Enter(E.t) /\ cur[E.t] = OpOf(E) /\ Bind(E.m, MutexOf(cur[E.t]))
TUnlock == /\ Ev("Unlock") /\ Leave(E.t) /\ mname[E.m] = MutexOf(cur[E.t]) /\ UNCHANGED mname
\* a caller that obtained the token leaves the call; matching is observed separately (gr_use / map_* events)
TGrGot == /\ l <= Len(Tr) /\ pc[E.t] = "gr_use" /\ Finish(E.t) /\ Quiet(E.t, "got", 0)
          /\ UNCHANGED <<l, mname, prog, owner, ptr, tok, builds, scanid, ids, sdoc, reglen, conv, pool, grams, reg, ret, given, seen, uris>>
\* spg_get has no hook either: silently, just before the thread's Unlock line
TSpgGet == /\ l <= Len(Tr) /\ E.e = "Unlock" /\ pc[E.t] = "spg_get" /\ SpgGet(E.t) /\ UNCHANGED <<l, mname, prog>>

Building(s) == \E u \in Threads : cur[u].k = "GR" /\ cur[u].s = s /\ pc[u] \in {"gr_slow", "gr_build", "gr_pub", "leave"}
GrFastRead(t, s, v) ==           \* the four explanations of a logged fast-path read
    \/ /\ v = ptr[s] /\ v = 0 /\ GrFast(t, Op("GR", s, "", 0)) /\ UNCHANGED mname
    \/ /\ v = 1 /\ ptr[s] = 1 /\ GrFast(t, Op("GR", s, "", 0)) /\ UNCHANGED mname                       \* hit
    \/ /\ v = 0 /\ ptr[s] = 1                                                                           \* GrFastStale
       /\ pc[t] = "idle" /\ cur[t] = NoOp /\ cur' = [cur EXCEPT ![t] = Op("GR", s, "", 0)] /\ Goto(t, "enter")
       /\ Acc(t, "gr_fast", "tokptr", "r", "RTM", 0)
       /\ UNCHANGED <<mname, owner, ptr, tok, builds, scanid, ids, sdoc, reglen, conv, pool, grams, reg, ret, given, seen, uris>>
    \/ /\ v = 1 /\ ptr[s] = 0 /\ (\E u \in Threads : cur[u].k = "GR" /\ cur[u].s = s /\ pc[u] \in {"gr_pub", "leave"})   \* GrFastEarly
       /\ pc[t] = "idle" /\ cur[t] = NoOp /\ cur' = [cur EXCEPT ![t] = Op("GR", s, "", 0)] /\ Goto(t, "gr_use")
       /\ Acc(t, "gr_fast", "tokptr", "r", "RTM", 1)
       /\ UNCHANGED <<mname, owner, ptr, tok, builds, scanid, ids, sdoc, reglen, conv, pool, grams, reg, ret, given, seen, uris>>
    \/ /\ v = 1 /\ ptr[s] = 0 /\ builds[s] = 0 /\ ~Building(s)                                          \* built by Initialize
       /\ pc[t] = "idle" /\ cur[t] = NoOp
       /\ ptr' = [ptr EXCEPT ![s] = 1] /\ tok' = [tok EXCEPT ![s] = "Ready"]
       /\ Acc(t, "gr_fast", "tokptr", "r", "RTM", 1)
       /\ UNCHANGED <<mname, pc, cur, owner, builds, scanid, ids, sdoc, reglen, conv, pool, grams, reg, ret, given, seen, uris>>
TGrFast == AccEv("gr_fast") /\ GrFastRead(E.t, E.obj, E.val)
TGrSlow == AccEv("gr_slow") /\ GrSlow(E.t) /\ cur[E.t].s = E.obj /\ step'.v = E.val /\ UNCHANGED mname
TGrBuild == AccEv("gr_build") /\ GrBuild(E.t) /\ cur[E.t].s = E.obj /\ UNCHANGED mname
TGrPub == AccEv("gr_pub") /\ GrPub(E.t) /\ cur[E.t].s = E.obj /\ UNCHANGED mname
\* the match map of a published token, created by whoever matches first (no lock as coded)
TMapAlloc == /\ AccEv("map_alloc") /\ tok[E.obj] = "Ranges" /\ tok' = [tok EXCEPT ![E.obj] = "Half"]
             /\ Acc(E.t, "map_alloc", "token", "lazy", "none", 0)
             /\ UNCHANGED <<mname, pc, cur, owner, ptr, builds, scanid, ids, sdoc, reglen, conv, pool, grams, reg, ret, given, seen, uris>>
TMapDone == /\ AccEv("map_done") /\ tok[E.obj] = "Half" /\ tok' = [tok EXCEPT ![E.obj] = "Ready"]
            /\ Acc(E.t, "map_done", "token", "lazy", "none", 0)
            /\ UNCHANGED <<mname, pc, cur, owner, ptr, builds, scanid, ids, sdoc, reglen, conv, pool, grams, reg, ret, given, seen, uris>>
TGrUse == /\ AccEv("gr_use") /\ tok[E.obj] \in {"Ranges", "Ready"}      \* never while the map is half-built
          /\ seen' = seen \cup {"Ready"}
          /\ Acc(E.t, "gr_use", "token", "r", "none", E.val)
          /\ UNCHANGED <<mname, pc, cur, owner, ptr, tok, builds, scanid, ids, sdoc, reglen, conv, pool, grams, reg, ret, given, uris>>
\* fScannerId = ++gScannerId is one statement: CiRead and CiIncr in one line (ReadStable, checked by TLC on the
\* specification, says the value read is still current when it is written back under the lock)
TCiRead == /\ l <= Len(Tr) /\ E.e = "Acc" /\ E.site = "ci_incr" /\ pc[E.t] = "ci_read" /\ CiRead(E.t) /\ UNCHANGED <<l, mname, prog>>
TCiIncr == AccEv("ci_incr") /\ CiIncr(E.t) /\ step'.v = E.val /\ UNCHANGED mname
TDtUse == AccEv("dt_use") /\ DtUse(E.t) /\ UNCHANGED mname
TRgLen == AccEv("rg_len") /\ RgLen(E.t) /\ step'.v = E.val /\ UNCHANGED mname
TRgAdd == AccEv("rg_add") /\ RgAdd(E.t) /\ step'.v = E.val /\ UNCHANGED mname
TLcpUse == AccEv("lcp_use") /\ LcpUse(E.t) /\ UNCHANGED mname
\* look-up and addNewEntry are one hook line
TSpFind == /\ l <= Len(Tr) /\ E.e = "Acc" /\ E.site = "sp_add" /\ pc[E.t] = "sp_find" /\ SpFind(E.t) /\ UNCHANGED <<l, mname, prog>>
TSpAdd == AccEv("sp_add") /\ SpAdd(E.t) /\ cur[E.t].x = E.x /\ cur[E.t].p = PoolName(E.obj) /\ step'.v = E.val /\ UNCHANGED mname
TGpc == AccEv("gpc") /\ GpCache(E.t, Op("GPC", 0, "", 1)) /\ step'.v = E.val /\ UNCHANGED mname
TGpu == AccEv("gpu") /\ E.val = 1 /\ GpUri(E.t, Op("GPU", 0, "", 0)) /\ UNCHANGED mname

TInit == Init /\ l = 1 /\ mname = [m \in 1..MaxMutex |-> ""] /\ TLCSet(7, 1)
TNext == /\ (TLockFirst \/ TSpConst \/ TLockLater \/ TUnlock \/ TGrGot \/ TSpgGet \/ TGrFast \/ TGrSlow \/ TGrBuild \/ TGrPub
             \/ TMapAlloc \/ TMapDone \/ TGrUse \/ TCiRead \/ TCiIncr \/ TDtUse \/ TRgLen \/ TRgAdd \/ TLcpUse \/ TSpFind \/ TSpAdd \/ TGpc \/ TGpu)
         /\ (l' > TLCGet(7) => TLCSet(7, l'))
TSpec == TInit /\ [][TNext]_tvars
Accepted == /\ PrintT(<<"TRACE-RESULT", TLCGet(7) - 1, Len(Tr)>>)
            /\ TLCGet(7) - 1 = Len(Tr)
\* the part of InitOnce that holds for the code as pinned (LazyMap): built once, published after the ranges exist
InitOnceAsCoded == \A s \in Slots : builds[s] <= 1 /\ (ptr[s] = 1 => tok[s] # "Null") /\ seen \subseteq {"Ready"}
TraceProgs == [Threads -> {<<>>}]
NoConst == <<>>
=============================================================================
