---- MODULE IdentityConstraintsMC_TTrace_1790088364 ----
EXTENDS Sequences, TLCExt, Toolbox, Naturals, TLC, IdentityConstraintsMC

_expression ==
    LET IdentityConstraintsMC_TEExpression == INSTANCE IdentityConstraintsMC_TEExpression
    IN IdentityConstraintsMC_TEExpression!expression
----

_trace ==
    LET IdentityConstraintsMC_TETrace == INSTANCE IdentityConstraintsMC_TETrace
    IN IdentityConstraintsMC_TETrace!trace
----

_inv ==
    ~(
        TLCGet("level") = Len(_TETrace)
        /\
        phase = ("done")
        /\
        cs = ([fam |-> "I3a", ty |-> "string", cons |-> <<[nm |-> "K", kind |-> "key", on |-> "a", sel |-> <<[d |-> FALSE, s |-> <<"i">>, a |-> "-"]>>, flds |-> <<<<[d |-> FALSE, s |-> <<>>, a |-> "id"]>>>>, refer |-> "-"], [nm |-> "R", kind |-> "keyref", on |-> "r", sel |-> <<[d |-> FALSE, s |-> <<"b">>, a |-> "-"]>>, flds |-> <<<<[d |-> FALSE, s |-> <<>>, a |-> "ref"]>>>>, refer |-> "K"]>>, tree |-> <<<<1, "a", <<>>, <<>>, <<>>>>, <<2, "i", <<"p", 1>>, <<>>, <<>>>>, <<2, "i", <<"p", 1>>, <<>>, <<>>>>, <<1, "b", <<>>, <<"p", 1>>, <<>>>>>>])
        /\
        st = ([stack |-> <<>>, stores |-> (<<1, "n", 1>> :> [tab |-> {<<<<<<"str", "p", 1>>>>, 2>>, <<<<<<"str", "p", 1>>>>, 3>>}, dead |-> {}] @@ <<2, "n", 0>> :> [tab |-> {<<<<<<"str", "p", 1>>>>, 4>>}, dead |-> {}]), curs |-> (<<<<1, "n", 1>>, 2>> :> [vals |-> <<<<"str", "p", 1>>>>, multi |-> FALSE, nil |-> FALSE] @@ <<<<1, "n", 1>>, 3>> :> [vals |-> <<<<"str", "p", 1>>>>, multi |-> FALSE, nil |-> FALSE] @@ <<<<2, "n", 0>>, 4>> :> [vals |-> <<<<"str", "p", 1>>>>, multi |-> FALSE, nil |-> FALSE]), may |-> {}, matchers |-> <<>>, mctx |-> <<>>, gmap |-> <<<<1, "n", 1>>>>, gstack |-> <<>>, errs |-> {"dup-key"}, content |-> <<>>])
        /\
        nx = (5)
    )
----

_init ==
    /\ phase = _TETrace[1].phase
    /\ nx = _TETrace[1].nx
    /\ cs = _TETrace[1].cs
    /\ st = _TETrace[1].st
----

_next ==
    /\ \E i,j \in DOMAIN _TETrace:
        /\ \/ /\ j = i + 1
              /\ i = TLCGet("level")
        /\ phase  = _TETrace[i].phase
        /\ phase' = _TETrace[j].phase
        /\ nx  = _TETrace[i].nx
        /\ nx' = _TETrace[j].nx
        /\ cs  = _TETrace[i].cs
        /\ cs' = _TETrace[j].cs
        /\ st  = _TETrace[i].st
        /\ st' = _TETrace[j].st

\* Uncomment the ASSUME below to write the states of the error trace
\* to the given file in Json format. Note that you can pass any tuple
\* to `JsonSerialize`. For example, a sub-sequence of _TETrace.
    \* ASSUME
    \*     LET J == INSTANCE Json
    \*         IN J!JsonSerialize("IdentityConstraintsMC_TTrace_1790088364.json", _TETrace)

=============================================================================

 Note that you can extract this module `IdentityConstraintsMC_TEExpression`
  to a dedicated file to reuse `expression` (the module in the 
  dedicated `IdentityConstraintsMC_TEExpression.tla` file takes precedence 
  over the module `IdentityConstraintsMC_TEExpression` below).

---- MODULE IdentityConstraintsMC_TEExpression ----
EXTENDS Sequences, TLCExt, Toolbox, Naturals, TLC, IdentityConstraintsMC

expression == 
    [
        \* To hide variables of the `IdentityConstraintsMC` spec from the error trace,
        \* remove the variables below.  The trace will be written in the order
        \* of the fields of this record.
        phase |-> phase
        ,nx |-> nx
        ,cs |-> cs
        ,st |-> st
        
        \* Put additional constant-, state-, and action-level expressions here:
        \* ,_stateNumber |-> _TEPosition
        \* ,_phaseUnchanged |-> phase = phase'
        
        \* Format the `phase` variable as Json value.
        \* ,_phaseJson |->
        \*     LET J == INSTANCE Json
        \*     IN J!ToJson(phase)
        
        \* Lastly, you may build expressions over arbitrary sets of states by
        \* leveraging the _TETrace operator.  For example, this is how to
        \* count the number of times a spec variable changed up to the current
        \* state in the trace.
        \* ,_phaseModCount |->
        \*     LET F[s \in DOMAIN _TETrace] ==
        \*         IF s = 1 THEN 0
        \*         ELSE IF _TETrace[s].phase # _TETrace[s-1].phase
        \*             THEN 1 + F[s-1] ELSE F[s-1]
        \*     IN F[_TEPosition - 1]
    ]

=============================================================================



Parsing and semantic processing can take forever if the trace below is long.
 In this case, it is advised to uncomment the module below to deserialize the
 trace from a generated binary file.

\*
\*---- MODULE IdentityConstraintsMC_TETrace ----
\*EXTENDS IOUtils, TLC, IdentityConstraintsMC
\*
\*trace == IODeserialize("IdentityConstraintsMC_TTrace_1790088364.bin", TRUE)
\*
\*=============================================================================
\*

---- MODULE IdentityConstraintsMC_TETrace ----
EXTENDS TLC, IdentityConstraintsMC

trace == 
    <<
    ([phase |-> "run",cs |-> [fam |-> "I3a", ty |-> "string", cons |-> <<[nm |-> "K", kind |-> "key", on |-> "a", sel |-> <<[d |-> FALSE, s |-> <<"i">>, a |-> "-"]>>, flds |-> <<<<[d |-> FALSE, s |-> <<>>, a |-> "id"]>>>>, refer |-> "-"], [nm |-> "R", kind |-> "keyref", on |-> "r", sel |-> <<[d |-> FALSE, s |-> <<"b">>, a |-> "-"]>>, flds |-> <<<<[d |-> FALSE, s |-> <<>>, a |-> "ref"]>>>>, refer |-> "K"]>>, tree |-> <<<<1, "a", <<>>, <<>>, <<>>>>, <<2, "i", <<"p", 1>>, <<>>, <<>>>>, <<2, "i", <<"p", 1>>, <<>>, <<>>>>, <<1, "b", <<>>, <<"p", 1>>, <<>>>>>>],st |-> [stack |-> <<>>, stores |-> <<>>, curs |-> <<>>, may |-> {}, matchers |-> <<>>, mctx |-> <<>>, gmap |-> <<>>, gstack |-> <<>>, errs |-> {}, content |-> <<>>],nx |-> 0]),
    ([phase |-> "run",cs |-> [fam |-> "I3a", ty |-> "string", cons |-> <<[nm |-> "K", kind |-> "key", on |-> "a", sel |-> <<[d |-> FALSE, s |-> <<"i">>, a |-> "-"]>>, flds |-> <<<<[d |-> FALSE, s |-> <<>>, a |-> "id"]>>>>, refer |-> "-"], [nm |-> "R", kind |-> "keyref", on |-> "r", sel |-> <<[d |-> FALSE, s |-> <<"b">>, a |-> "-"]>>, flds |-> <<<<[d |-> FALSE, s |-> <<>>, a |-> "ref"]>>>>, refer |-> "K"]>>, tree |-> <<<<1, "a", <<>>, <<>>, <<>>>>, <<2, "i", <<"p", 1>>, <<>>, <<>>>>, <<2, "i", <<"p", 1>>, <<>>, <<>>>>, <<1, "b", <<>>, <<"p", 1>>, <<>>>>>>],st |-> [stack |-> <<0>>, stores |-> (<<2, "n", 0>> :> [tab |-> {}, dead |-> {}]), curs |-> <<>>, may |-> {}, matchers |-> <<[sel |-> 0, f |-> 0, t |-> "sel", depth |-> 0, root |-> 0, ic |-> 2]>>, mctx |-> <<0>>, gmap |-> <<>>, gstack |-> <<<<>>>>, errs |-> {}, content |-> <<>>],nx |-> 1]),
    ([phase |-> "run",cs |-> [fam |-> "I3a", ty |-> "string", cons |-> <<[nm |-> "K", kind |-> "key", on |-> "a", sel |-> <<[d |-> FALSE, s |-> <<"i">>, a |-> "-"]>>, flds |-> <<<<[d |-> FALSE, s |-> <<>>, a |-> "id"]>>>>, refer |-> "-"], [nm |-> "R", kind |-> "keyref", on |-> "r", sel |-> <<[d |-> FALSE, s |-> <<"b">>, a |-> "-"]>>, flds |-> <<<<[d |-> FALSE, s |-> <<>>, a |-> "ref"]>>>>, refer |-> "K"]>>, tree |-> <<<<1, "a", <<>>, <<>>, <<>>>>, <<2, "i", <<"p", 1>>, <<>>, <<>>>>, <<2, "i", <<"p", 1>>, <<>>, <<>>>>, <<1, "b", <<>>, <<"p", 1>>, <<>>>>>>],st |-> [stack |-> <<0, 1>>, stores |-> (<<1, "n", 1>> :> [tab |-> {}, dead |-> {}] @@ <<2, "n", 0>> :> [tab |-> {}, dead |-> {}]), curs |-> <<>>, may |-> {}, matchers |-> <<[sel |-> 0, f |-> 0, t |-> "sel", depth |-> 0, root |-> 0, ic |-> 2], [sel |-> 0, f |-> 0, t |-> "sel", depth |-> 1, root |-> 1, ic |-> 1]>>, mctx |-> <<0, 1>>, gmap |-> <<>>, gstack |-> <<<<>>, <<>>>>, errs |-> {}, content |-> <<>>],nx |-> 2]),
    ([phase |-> "run",cs |-> [fam |-> "I3a", ty |-> "string", cons |-> <<[nm |-> "K", kind |-> "key", on |-> "a", sel |-> <<[d |-> FALSE, s |-> <<"i">>, a |-> "-"]>>, flds |-> <<<<[d |-> FALSE, s |-> <<>>, a |-> "id"]>>>>, refer |-> "-"], [nm |-> "R", kind |-> "keyref", on |-> "r", sel |-> <<[d |-> FALSE, s |-> <<"b">>, a |-> "-"]>>, flds |-> <<<<[d |-> FALSE, s |-> <<>>, a |-> "ref"]>>>>, refer |-> "K"]>>, tree |-> <<<<1, "a", <<>>, <<>>, <<>>>>, <<2, "i", <<"p", 1>>, <<>>, <<>>>>, <<2, "i", <<"p", 1>>, <<>>, <<>>>>, <<1, "b", <<>>, <<"p", 1>>, <<>>>>>>],st |-> [stack |-> <<0, 1, 2>>, stores |-> (<<1, "n", 1>> :> [tab |-> {}, dead |-> {}] @@ <<2, "n", 0>> :> [tab |-> {}, dead |-> {}]), curs |-> (<<<<1, "n", 1>>, 2>> :> [vals |-> <<<<"str", "p", 1>>>>, multi |-> FALSE, nil |-> FALSE]), may |-> {}, matchers |-> <<[sel |-> 0, f |-> 0, t |-> "sel", depth |-> 0, root |-> 0, ic |-> 2], [sel |-> 0, f |-> 0, t |-> "sel", depth |-> 1, root |-> 1, ic |-> 1], [sel |-> 2, f |-> 1, t |-> "fld", depth |-> 1, root |-> 1, ic |-> 1]>>, mctx |-> <<0, 1, 2>>, gmap |-> <<>>, gstack |-> <<<<>>, <<>>, <<>>>>, errs |-> {}, content |-> <<>>],nx |-> 3]),
    ([phase |-> "run",cs |-> [fam |-> "I3a", ty |-> "string", cons |-> <<[nm |-> "K", kind |-> "key", on |-> "a", sel |-> <<[d |-> FALSE, s |-> <<"i">>, a |-> "-"]>>, flds |-> <<<<[d |-> FALSE, s |-> <<>>, a |-> "id"]>>>>, refer |-> "-"], [nm |-> "R", kind |-> "keyref", on |-> "r", sel |-> <<[d |-> FALSE, s |-> <<"b">>, a |-> "-"]>>, flds |-> <<<<[d |-> FALSE, s |-> <<>>, a |-> "ref"]>>>>, refer |-> "K"]>>, tree |-> <<<<1, "a", <<>>, <<>>, <<>>>>, <<2, "i", <<"p", 1>>, <<>>, <<>>>>, <<2, "i", <<"p", 1>>, <<>>, <<>>>>, <<1, "b", <<>>, <<"p", 1>>, <<>>>>>>],st |-> [stack |-> <<0, 1>>, stores |-> (<<1, "n", 1>> :> [tab |-> {<<<<<<"str", "p", 1>>>>, 2>>}, dead |-> {}] @@ <<2, "n", 0>> :> [tab |-> {}, dead |-> {}]), curs |-> (<<<<1, "n", 1>>, 2>> :> [vals |-> <<<<"str", "p", 1>>>>, multi |-> FALSE, nil |-> FALSE]), may |-> {}, matchers |-> <<[sel |-> 0, f |-> 0, t |-> "sel", depth |-> 0, root |-> 0, ic |-> 2], [sel |-> 0, f |-> 0, t |-> "sel", depth |-> 1, root |-> 1, ic |-> 1]>>, mctx |-> <<0, 1>>, gmap |-> <<>>, gstack |-> <<<<>>, <<>>>>, errs |-> {}, content |-> <<>>],nx |-> 3]),
    ([phase |-> "run",cs |-> [fam |-> "I3a", ty |-> "string", cons |-> <<[nm |-> "K", kind |-> "key", on |-> "a", sel |-> <<[d |-> FALSE, s |-> <<"i">>, a |-> "-"]>>, flds |-> <<<<[d |-> FALSE, s |-> <<>>, a |-> "id"]>>>>, refer |-> "-"], [nm |-> "R", kind |-> "keyref", on |-> "r", sel |-> <<[d |-> FALSE, s |-> <<"b">>, a |-> "-"]>>, flds |-> <<<<[d |-> FALSE, s |-> <<>>, a |-> "ref"]>>>>, refer |-> "K"]>>, tree |-> <<<<1, "a", <<>>, <<>>, <<>>>>, <<2, "i", <<"p", 1>>, <<>>, <<>>>>, <<2, "i", <<"p", 1>>, <<>>, <<>>>>, <<1, "b", <<>>, <<"p", 1>>, <<>>>>>>],st |-> [stack |-> <<0, 1, 3>>, stores |-> (<<1, "n", 1>> :> [tab |-> {<<<<<<"str", "p", 1>>>>, 2>>}, dead |-> {}] @@ <<2, "n", 0>> :> [tab |-> {}, dead |-> {}]), curs |-> (<<<<1, "n", 1>>, 2>> :> [vals |-> <<<<"str", "p", 1>>>>, multi |-> FALSE, nil |-> FALSE] @@ <<<<1, "n", 1>>, 3>> :> [vals |-> <<<<"str", "p", 1>>>>, multi |-> FALSE, nil |-> FALSE]), may |-> {}, matchers |-> <<[sel |-> 0, f |-> 0, t |-> "sel", depth |-> 0, root |-> 0, ic |-> 2], [sel |-> 0, f |-> 0, t |-> "sel", depth |-> 1, root |-> 1, ic |-> 1], [sel |-> 3, f |-> 1, t |-> "fld", depth |-> 1, root |-> 1, ic |-> 1]>>, mctx |-> <<0, 1, 2>>, gmap |-> <<>>, gstack |-> <<<<>>, <<>>, <<>>>>, errs |-> {}, content |-> <<>>],nx |-> 4]),
    ([phase |-> "run",cs |-> [fam |-> "I3a", ty |-> "string", cons |-> <<[nm |-> "K", kind |-> "key", on |-> "a", sel |-> <<[d |-> FALSE, s |-> <<"i">>, a |-> "-"]>>, flds |-> <<<<[d |-> FALSE, s |-> <<>>, a |-> "id"]>>>>, refer |-> "-"], [nm |-> "R", kind |-> "keyref", on |-> "r", sel |-> <<[d |-> FALSE, s |-> <<"b">>, a |-> "-"]>>, flds |-> <<<<[d |-> FALSE, s |-> <<>>, a |-> "ref"]>>>>, refer |-> "K"]>>, tree |-> <<<<1, "a", <<>>, <<>>, <<>>>>, <<2, "i", <<"p", 1>>, <<>>, <<>>>>, <<2, "i", <<"p", 1>>, <<>>, <<>>>>, <<1, "b", <<>>, <<"p", 1>>, <<>>>>>>],st |-> [stack |-> <<0, 1>>, stores |-> (<<1, "n", 1>> :> [tab |-> {<<<<<<"str", "p", 1>>>>, 2>>, <<<<<<"str", "p", 1>>>>, 3>>}, dead |-> {}] @@ <<2, "n", 0>> :> [tab |-> {}, dead |-> {}]), curs |-> (<<<<1, "n", 1>>, 2>> :> [vals |-> <<<<"str", "p", 1>>>>, multi |-> FALSE, nil |-> FALSE] @@ <<<<1, "n", 1>>, 3>> :> [vals |-> <<<<"str", "p", 1>>>>, multi |-> FALSE, nil |-> FALSE]), may |-> {}, matchers |-> <<[sel |-> 0, f |-> 0, t |-> "sel", depth |-> 0, root |-> 0, ic |-> 2], [sel |-> 0, f |-> 0, t |-> "sel", depth |-> 1, root |-> 1, ic |-> 1]>>, mctx |-> <<0, 1>>, gmap |-> <<>>, gstack |-> <<<<>>, <<>>>>, errs |-> {"dup-key"}, content |-> <<>>],nx |-> 4]),
    ([phase |-> "run",cs |-> [fam |-> "I3a", ty |-> "string", cons |-> <<[nm |-> "K", kind |-> "key", on |-> "a", sel |-> <<[d |-> FALSE, s |-> <<"i">>, a |-> "-"]>>, flds |-> <<<<[d |-> FALSE, s |-> <<>>, a |-> "id"]>>>>, refer |-> "-"], [nm |-> "R", kind |-> "keyref", on |-> "r", sel |-> <<[d |-> FALSE, s |-> <<"b">>, a |-> "-"]>>, flds |-> <<<<[d |-> FALSE, s |-> <<>>, a |-> "ref"]>>>>, refer |-> "K"]>>, tree |-> <<<<1, "a", <<>>, <<>>, <<>>>>, <<2, "i", <<"p", 1>>, <<>>, <<>>>>, <<2, "i", <<"p", 1>>, <<>>, <<>>>>, <<1, "b", <<>>, <<"p", 1>>, <<>>>>>>],st |-> [stack |-> <<0>>, stores |-> (<<1, "n", 1>> :> [tab |-> {<<<<<<"str", "p", 1>>>>, 2>>, <<<<<<"str", "p", 1>>>>, 3>>}, dead |-> {}] @@ <<2, "n", 0>> :> [tab |-> {}, dead |-> {}]), curs |-> (<<<<1, "n", 1>>, 2>> :> [vals |-> <<<<"str", "p", 1>>>>, multi |-> FALSE, nil |-> FALSE] @@ <<<<1, "n", 1>>, 3>> :> [vals |-> <<<<"str", "p", 1>>>>, multi |-> FALSE, nil |-> FALSE]), may |-> {}, matchers |-> <<[sel |-> 0, f |-> 0, t |-> "sel", depth |-> 0, root |-> 0, ic |-> 2]>>, mctx |-> <<0>>, gmap |-> <<<<1, "n", 1>>>>, gstack |-> <<<<>>>>, errs |-> {"dup-key"}, content |-> <<>>],nx |-> 4]),
    ([phase |-> "run",cs |-> [fam |-> "I3a", ty |-> "string", cons |-> <<[nm |-> "K", kind |-> "key", on |-> "a", sel |-> <<[d |-> FALSE, s |-> <<"i">>, a |-> "-"]>>, flds |-> <<<<[d |-> FALSE, s |-> <<>>, a |-> "id"]>>>>, refer |-> "-"], [nm |-> "R", kind |-> "keyref", on |-> "r", sel |-> <<[d |-> FALSE, s |-> <<"b">>, a |-> "-"]>>, flds |-> <<<<[d |-> FALSE, s |-> <<>>, a |-> "ref"]>>>>, refer |-> "K"]>>, tree |-> <<<<1, "a", <<>>, <<>>, <<>>>>, <<2, "i", <<"p", 1>>, <<>>, <<>>>>, <<2, "i", <<"p", 1>>, <<>>, <<>>>>, <<1, "b", <<>>, <<"p", 1>>, <<>>>>>>],st |-> [stack |-> <<0, 4>>, stores |-> (<<1, "n", 1>> :> [tab |-> {<<<<<<"str", "p", 1>>>>, 2>>, <<<<<<"str", "p", 1>>>>, 3>>}, dead |-> {}] @@ <<2, "n", 0>> :> [tab |-> {}, dead |-> {}]), curs |-> (<<<<1, "n", 1>>, 2>> :> [vals |-> <<<<"str", "p", 1>>>>, multi |-> FALSE, nil |-> FALSE] @@ <<<<1, "n", 1>>, 3>> :> [vals |-> <<<<"str", "p", 1>>>>, multi |-> FALSE, nil |-> FALSE] @@ <<<<2, "n", 0>>, 4>> :> [vals |-> <<<<"str", "p", 1>>>>, multi |-> FALSE, nil |-> FALSE]), may |-> {}, matchers |-> <<[sel |-> 0, f |-> 0, t |-> "sel", depth |-> 0, root |-> 0, ic |-> 2], [sel |-> 4, f |-> 1, t |-> "fld", depth |-> 0, root |-> 0, ic |-> 2]>>, mctx |-> <<0, 1>>, gmap |-> <<>>, gstack |-> <<<<>>, <<<<1, "n", 1>>>>>>, errs |-> {"dup-key"}, content |-> <<>>],nx |-> 5]),
    ([phase |-> "run",cs |-> [fam |-> "I3a", ty |-> "string", cons |-> <<[nm |-> "K", kind |-> "key", on |-> "a", sel |-> <<[d |-> FALSE, s |-> <<"i">>, a |-> "-"]>>, flds |-> <<<<[d |-> FALSE, s |-> <<>>, a |-> "id"]>>>>, refer |-> "-"], [nm |-> "R", kind |-> "keyref", on |-> "r", sel |-> <<[d |-> FALSE, s |-> <<"b">>, a |-> "-"]>>, flds |-> <<<<[d |-> FALSE, s |-> <<>>, a |-> "ref"]>>>>, refer |-> "K"]>>, tree |-> <<<<1, "a", <<>>, <<>>, <<>>>>, <<2, "i", <<"p", 1>>, <<>>, <<>>>>, <<2, "i", <<"p", 1>>, <<>>, <<>>>>, <<1, "b", <<>>, <<"p", 1>>, <<>>>>>>],st |-> [stack |-> <<0>>, stores |-> (<<1, "n", 1>> :> [tab |-> {<<<<<<"str", "p", 1>>>>, 2>>, <<<<<<"str", "p", 1>>>>, 3>>}, dead |-> {}] @@ <<2, "n", 0>> :> [tab |-> {<<<<<<"str", "p", 1>>>>, 4>>}, dead |-> {}]), curs |-> (<<<<1, "n", 1>>, 2>> :> [vals |-> <<<<"str", "p", 1>>>>, multi |-> FALSE, nil |-> FALSE] @@ <<<<1, "n", 1>>, 3>> :> [vals |-> <<<<"str", "p", 1>>>>, multi |-> FALSE, nil |-> FALSE] @@ <<<<2, "n", 0>>, 4>> :> [vals |-> <<<<"str", "p", 1>>>>, multi |-> FALSE, nil |-> FALSE]), may |-> {}, matchers |-> <<[sel |-> 0, f |-> 0, t |-> "sel", depth |-> 0, root |-> 0, ic |-> 2]>>, mctx |-> <<0>>, gmap |-> <<<<1, "n", 1>>>>, gstack |-> <<<<>>>>, errs |-> {"dup-key"}, content |-> <<>>],nx |-> 5]),
    ([phase |-> "run",cs |-> [fam |-> "I3a", ty |-> "string", cons |-> <<[nm |-> "K", kind |-> "key", on |-> "a", sel |-> <<[d |-> FALSE, s |-> <<"i">>, a |-> "-"]>>, flds |-> <<<<[d |-> FALSE, s |-> <<>>, a |-> "id"]>>>>, refer |-> "-"], [nm |-> "R", kind |-> "keyref", on |-> "r", sel |-> <<[d |-> FALSE, s |-> <<"b">>, a |-> "-"]>>, flds |-> <<<<[d |-> FALSE, s |-> <<>>, a |-> "ref"]>>>>, refer |-> "K"]>>, tree |-> <<<<1, "a", <<>>, <<>>, <<>>>>, <<2, "i", <<"p", 1>>, <<>>, <<>>>>, <<2, "i", <<"p", 1>>, <<>>, <<>>>>, <<1, "b", <<>>, <<"p", 1>>, <<>>>>>>],st |-> [stack |-> <<>>, stores |-> (<<1, "n", 1>> :> [tab |-> {<<<<<<"str", "p", 1>>>>, 2>>, <<<<<<"str", "p", 1>>>>, 3>>}, dead |-> {}] @@ <<2, "n", 0>> :> [tab |-> {<<<<<<"str", "p", 1>>>>, 4>>}, dead |-> {}]), curs |-> (<<<<1, "n", 1>>, 2>> :> [vals |-> <<<<"str", "p", 1>>>>, multi |-> FALSE, nil |-> FALSE] @@ <<<<1, "n", 1>>, 3>> :> [vals |-> <<<<"str", "p", 1>>>>, multi |-> FALSE, nil |-> FALSE] @@ <<<<2, "n", 0>>, 4>> :> [vals |-> <<<<"str", "p", 1>>>>, multi |-> FALSE, nil |-> FALSE]), may |-> {}, matchers |-> <<>>, mctx |-> <<>>, gmap |-> <<<<1, "n", 1>>>>, gstack |-> <<>>, errs |-> {"dup-key"}, content |-> <<>>],nx |-> 5]),
    ([phase |-> "done",cs |-> [fam |-> "I3a", ty |-> "string", cons |-> <<[nm |-> "K", kind |-> "key", on |-> "a", sel |-> <<[d |-> FALSE, s |-> <<"i">>, a |-> "-"]>>, flds |-> <<<<[d |-> FALSE, s |-> <<>>, a |-> "id"]>>>>, refer |-> "-"], [nm |-> "R", kind |-> "keyref", on |-> "r", sel |-> <<[d |-> FALSE, s |-> <<"b">>, a |-> "-"]>>, flds |-> <<<<[d |-> FALSE, s |-> <<>>, a |-> "ref"]>>>>, refer |-> "K"]>>, tree |-> <<<<1, "a", <<>>, <<>>, <<>>>>, <<2, "i", <<"p", 1>>, <<>>, <<>>>>, <<2, "i", <<"p", 1>>, <<>>, <<>>>>, <<1, "b", <<>>, <<"p", 1>>, <<>>>>>>],st |-> [stack |-> <<>>, stores |-> (<<1, "n", 1>> :> [tab |-> {<<<<<<"str", "p", 1>>>>, 2>>, <<<<<<"str", "p", 1>>>>, 3>>}, dead |-> {}] @@ <<2, "n", 0>> :> [tab |-> {<<<<<<"str", "p", 1>>>>, 4>>}, dead |-> {}]), curs |-> (<<<<1, "n", 1>>, 2>> :> [vals |-> <<<<"str", "p", 1>>>>, multi |-> FALSE, nil |-> FALSE] @@ <<<<1, "n", 1>>, 3>> :> [vals |-> <<<<"str", "p", 1>>>>, multi |-> FALSE, nil |-> FALSE] @@ <<<<2, "n", 0>>, 4>> :> [vals |-> <<<<"str", "p", 1>>>>, multi |-> FALSE, nil |-> FALSE]), may |-> {}, matchers |-> <<>>, mctx |-> <<>>, gmap |-> <<<<1, "n", 1>>>>, gstack |-> <<>>, errs |-> {"dup-key"}, content |-> <<>>],nx |-> 5])
    >>
----


=============================================================================

---- CONFIG IdentityConstraintsMC_TTrace_1790088364 ----
CONSTANTS
    Fams = { "F3a" }
    LenCap = 5
    Cases <- MCCases

INVARIANT
    _inv

CHECK_DEADLOCK
    \* CHECK_DEADLOCK off because of PROPERTY or INVARIANT above.
    FALSE

INIT
    _init

NEXT
    _next

CONSTANT
    _TETrace <- _trace

ALIAS
    _expression
=============================================================================
\* Generated on Tue Sep 22 14:50:28 UTC 2026