------------------------- MODULE IdentityConstraintsMC -------------------------
(* Case families of the exhaustive configurations of IdentityConstraints (sets of records cannot be written in a .cfg).
   A family = constraint sets x field types x every well-formed tree over a node alphabet up to a length.
   Families follow DESIGN.md C10 I1..I8. *)
EXTENDS IdentityConstraints
CONSTANT Fams, LenCap           \* names of the families to enumerate; cap on the tree length (0 = the family's own)

P(d, s, a) == [d |-> d, s |-> s, a |-> a]
Att(a) == <<P(FALSE, <<>>, a)>>                       \* field  @a
El(nm) == <<P(FALSE, <<nm>>, "-")>>                   \* field  nm
Sel1(nm) == <<P(FALSE, <<nm>>, "-")>>                 \* selector  nm
IC(nm, kind, on, sel, flds, refer) == [nm |-> nm, kind |-> kind, on |-> on, sel |-> sel, flds |-> flds, refer |-> refer]
N(d, nm, id, ref, tx) == <<d, nm, id, ref, tx>>
p1 == <<"p", 1>>
z1 == <<"z", 1>>
d1 == <<"d", 1>>
s1 == <<"s", 1>>
p2 == <<"p", 2>>
z2 == <<"z", 2>>
V3 == {p1, z1, p2}
V2 == {p1, p2}
Tys == {"string", "decimal"}

TreesOver(nodes, maxLen) ==
    LET cap == IF LenCap = 0 \/ LenCap > maxLen THEN maxLen ELSE LenCap IN
    {T \in UNION {[1..n -> nodes] : n \in 0..cap} : WellFormed(T)}
Family(fam, conss, tys, nodes, maxLen) ==
    {[ty |-> ty, cons |-> cons, tree |-> T, fam |-> fam] : ty \in tys, cons \in conss, T \in TreesOver(nodes, maxLen)}

\* I1  unique / key  (./i, @id)  -  value space against lexical space
F1 == Family("I1", {<<IC("U", "unique", "r", Sel1("i"), <<Att("id")>>, "-")>>, <<IC("K", "key", "r", Sel1("i"), <<Att("id")>>, "-")>>}, Tys,
             {N(1, "i", v, NoLex, NoLex) : v \in V3 \cup {NoLex, d1}}, 4)
\* I2  key and keyref declared on the same element; references before and after the keys
F2 == Family("I2", {<<IC("K", "key", "r", Sel1("i"), <<Att("id")>>, "-"), IC("R", "keyref", "r", Sel1("b"), <<Att("ref")>>, "K")>>,
                    <<IC("R", "keyref", "r", Sel1("b"), <<Att("ref")>>, "U"), IC("U", "unique", "r", Sel1("i"), <<Att("id")>>, "-")>>}, Tys,
             {N(1, "i", v, NoLex, NoLex) : v \in V3} \cup {N(1, "b", NoLex, v, NoLex) : v \in V3 \cup {NoLex, s1}}, 4)
\* I3 / I8  key on a nested element (several sibling scopes), keyref on the outer one: tables propagate upwards
F3a == Family("I3a", {<<IC("K", "key", "a", Sel1("i"), <<Att("id")>>, "-"), IC("R", "keyref", "r", Sel1("b"), <<Att("ref")>>, "K")>>}, {"string"},
              {N(1, "a", NoLex, NoLex, NoLex)} \cup {N(2, "i", v, NoLex, NoLex) : v \in V2} \cup {N(1, "b", NoLex, v, NoLex) : v \in V2}, 5)
\* I3  keyref on the nested element, key on the outer one: the key's table is not in scope
F3b == Family("I3b", {<<IC("K", "key", "r", Sel1("i"), <<Att("id")>>, "-"), IC("R", "keyref", "a", Sel1("b"), <<Att("ref")>>, "K")>>}, {"string"},
              {N(1, "a", NoLex, NoLex, NoLex)} \cup {N(1, "i", v, NoLex, NoLex) : v \in V2} \cup {N(2, "b", NoLex, v, NoLex) : v \in V2}, 4)
\* I8  recursively nested elements carrying the same key and keyref
F3c == Family("I8", {<<IC("K", "key", "a", Sel1("i"), <<Att("id")>>, "-"), IC("R", "keyref", "a", Sel1("b"), <<Att("ref")>>, "K")>>}, {"string"},
              {N(1, "a", NoLex, NoLex, NoLex), N(2, "a", NoLex, NoLex, NoLex)}
              \cup {N(d, "i", v, NoLex, NoLex) : d \in {2, 3}, v \in V2} \cup {N(d, "b", NoLex, v, NoLex) : d \in {2, 3}, v \in V2}, 5)
\* I4  two-field key / unique (@id, f): a field absent, a field present twice
F4 == Family("I4", {<<IC("K", "key", "r", Sel1("i"), <<Att("id"), El("f")>>, "-")>>, <<IC("U", "unique", "r", Sel1("i"), <<Att("id"), El("f")>>, "-")>>}, Tys,
             {N(1, "i", v, NoLex, NoLex) : v \in {NoLex, p1, z1}} \cup {N(2, "f", NoLex, NoLex, v) : v \in V2}, 5)
\* I5  selectors  .//i   */i   a/i | b/i   *
F5 == Family("I5", {<<IC("U", "unique", "r", <<P(TRUE, <<"i">>, "-")>>, <<Att("id")>>, "-")>>,
                    <<IC("U", "unique", "r", <<P(FALSE, <<"*", "i">>, "-")>>, <<Att("id")>>, "-")>>,
                    <<IC("U", "unique", "r", <<P(FALSE, <<"a", "i">>, "-"), P(FALSE, <<"b", "i">>, "-")>>, <<Att("id")>>, "-")>>,
                    <<IC("U", "unique", "r", <<P(FALSE, <<"*">>, "-")>>, <<Att("id")>>, "-")>>,
                    <<IC("U", "unique", "r", <<P(TRUE, <<"a", "i">>, "-")>>, <<Att("id")>>, "-")>>}, {"string"},
             {N(1, "a", NoLex, NoLex, NoLex), N(1, "b", NoLex, NoLex, NoLex), N(2, "a", NoLex, NoLex, NoLex)}
             \cup {N(d, "i", v, NoLex, NoLex) : d \in {1, 2, 3}, v \in {p1}} \cup {N(2, "i", p2, NoLex, NoLex)}, 4)
\* I6 / I7  element fields, the field ".", descendant fields, a nillable field element, a union field
F7 == Family("I7", {<<IC("U", "unique", "r", Sel1("i"), <<El("f")>>, "-")>>,
                    <<IC("K", "key", "r", Sel1("i"), <<El("g")>>, "-")>>,
                    <<IC("K", "key", "r", Sel1("f"), << <<P(FALSE, <<>>, "-")>> >>, "-")>>,
                    <<IC("U", "unique", "r", Sel1("i"), << <<P(TRUE, <<"f">>, "-")>> >>, "-")>>,
                    <<IC("K", "key", "r", Sel1("i"), << <<P(FALSE, <<"f">>, "-"), P(FALSE, <<"g">>, "-")>> >>, "-")>>}, Tys,
             {N(1, "i", NoLex, NoLex, NoLex)} \cup {N(2, "f", NoLex, NoLex, v) : v \in V3} \cup {N(2, "g", NoLex, NoLex, v) : v \in {p1}}
             \cup {N(1, "f", NoLex, NoLex, v) : v \in {p1, d1}}, 4)
\* nested selected nodes (.//i with i inside i), attribute and element fields
F8 == Family("I8n", {<<IC("U", "unique", "r", <<P(TRUE, <<"i">>, "-")>>, <<El("f")>>, "-")>>,
                     <<IC("K", "key", "r", <<P(TRUE, <<"i">>, "-")>>, <<Att("id"), El("f")>>, "-")>>}, {"string"},
             {N(d, "i", v, NoLex, NoLex) : d \in {1, 2}, v \in {NoLex, p1}} \cup {N(d, "f", NoLex, NoLex, v) : d \in {2, 3}, v \in V2}, 4)
\* descendant attribute fields  .//@id  and  */@id  and the union  @id | @ref
F9 == Family("I9", {<<IC("U", "unique", "r", Sel1("a"), << <<P(TRUE, <<>>, "id")>> >>, "-")>>,
                    <<IC("K", "key", "r", Sel1("a"), << <<P(FALSE, <<"*">>, "id")>> >>, "-")>>,
                    <<IC("U", "unique", "r", Sel1("a"), << <<P(FALSE, <<>>, "id"), P(FALSE, <<>>, "ref")>> >>, "-")>>}, {"decimal"},
             {N(1, "a", v, w, NoLex) : v \in {NoLex, p1}, w \in {NoLex, z1}} \cup {N(2, "i", v, NoLex, NoLex) : v \in {NoLex, p1, z1, p2}}, 4)

FamSet(f) == CASE f = "F1" -> F1 [] f = "F2" -> F2 [] f = "F3a" -> F3a [] f = "F3b" -> F3b [] f = "F3c" -> F3c [] f = "F4" -> F4
               [] f = "F5" -> F5 [] f = "F7" -> F7 [] f = "F8" -> F8 [] f = "F9" -> F9
MCCases == UNION {FamSet(f) : f \in Fams}
=============================================================================
