SPECIFICATION GSpec
CONSTANTS
  AlphaSeq <- Alpha6
  MaxLen = 3
  Uni = "A"
  OptRuns <- OptRunsStd
ACTION_CONSTRAINT EmitT
CHECK_DEADLOCK FALSE
