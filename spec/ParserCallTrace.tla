--------------------------- MODULE ParserCallTrace ---------------------------
(* Binder V of property C01: the same trace specification as ReaderBufTrace (Call / H1 / H2 events / Return of every
   recorded parser call); the name under which lib/vf/checks/c01.py runs it.  Only the return kinds of ParserCall
   are accepted (ReturnAllowed), every reader created in a call is released by its Return (AllReleased), every
   manager is empty (ResetEmpty), and entity pushes stay within an installed expansion limit (CountBounded). *)
EXTENDS ReaderBufTrace
=============================================================================
