SPECIFICATION WSpec
CONSTANTS
  Threads = {1, 2}
  Slots = {1, 2}
  Pools = {"SP1"}
  Strs = {1, 2, 3}
  ConstStrs <- ConstPool1
  Grams = {1}
  Grams0 = {}
  RegLen0 = 1
  ProgChoices <- Singles
  NoLock = {}
  LazyMap = FALSE
INVARIANT Emit
CHECK_DEADLOCK FALSE
