SPECIFICATION Spec
CONSTANTS
  Classes <- AllClasses
  MaxNodes = 2
  MaxChars = 3
  MaxVal = 3
  MaxDepth = 1
  LeafKinds = {"text", "cdata", "comment", "pi"}
  AttrRanks = {1}
  ElemQNames <- PlainRoot
  Cfgs <- CfgsRich10
INVARIANTS TypeOK StepwiseIsSer ErrorIffInexpressible OutputWellFormed RoundTripContent RoundTripExact NsPreserved SplitOnlyWhereForced WarnIffSplit Idempotent
ACTION_CONSTRAINT EmitT
CHECK_DEADLOCK FALSE
