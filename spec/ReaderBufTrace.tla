---------------------------- MODULE ReaderBufTrace ----------------------------
(* Binder V for ReaderBuf / ReaderStack / ParserCall (properties C04 and C01).

   A trace is the hook-event stream (families H1, H2) of real parser calls, bracketed by the harness's
   Call / Return lines.  Every line must be explained by the specification step(s) of the same name applied to
   the reader (manager) it names, with the REAL constants KChar = 16384 and KRaw = 49152:
       RdrNew, Raw (first), RdrInit                  NewReader, RawRefresh, InitDecode
       CRB                                           Consume(ci - charIdx), Begin
       Raw                                           XHead (must want raw), RawRefresh(ra - left)
       Xc                                            [XHead | AfterRaw] (must go on to transcode), Transcode(done, eaten)
       CRE                                           [AfterRaw (must return 0)], End
       RdrDel                                        the reader leaves the state (any later event on it is rejected)
       Push / Pop / CleanTo / RdrReset               ReaderStackOps
       Call / Return                                 ParserCall!Call / Return(kind)
   and every logged value must equal the value the specification computes (left, ra, ri, spare, ca, nomore, ...).
   A line that no step explains is a HARD rejection (TRACE-RESULT matched < total).
   The declarative statements (IndexBounds, ByteConservation, CharConservation, Progress, EofSound, the transcoder
   contract, StackInv, CountBounded, AllReleased, ReturnAllowed) are evaluated after every step; a failure is
   recorded in `viol` as <<call id, statement, reader/manager>> and printed (TRACE-VIOLATION) when found, so that one pass
   reports every execution that breaks a statement (the implementation is followed AS CODED: FixedEof = FALSE). *)
EXTENDS ReaderBufOps, ReaderStackOps, Json, IOUtils, TLC, FiniteSets
Tr == ndJsonDeserialize(IOEnv.TRACE)
VARIABLES l,        \* next line
          call,     \* ParserCall record
          cx,       \* [id, limit, total, main, entPushes]  of the running call
          rd,       \* reader id -> reader record (live readers of the running call)
          mg,       \* manager id -> manager record
          viol      \* set of <<call id, statement, subject>>
tvars == <<l, call, cx, rd, mg, viol>>
PC == INSTANCE ParserCall WITH Apis <- {}, Scanners <- {}, MaxReports <- 0

E == Tr[l]
Ev(name) == l <= Len(Tr) /\ E.e = name /\ l' = l + 1
Has(r) == r \in DOMAIN rd
Put(r, b) == (r :> b) @@ rd
Drop(f, r) == [x \in (DOMAIN f) \ {r} |-> f[x]]

(* soft statements about one reader after a step *)
RdrViol(r, b) ==
  {<<cx.id, "IndexBounds", r>> : x \in IF IndexBoundsR(b) THEN {} ELSE {1}} \cup
  {<<cx.id, "ByteConservation", r>> : x \in IF ByteConservationR(b) THEN {} ELSE {1}} \cup
  {<<cx.id, "CharConservation", r>> : x \in IF CharConservationR(b) THEN {} ELSE {1}} \cup
  {<<cx.id, "Progress", r>> : x \in IF ProgressR(b) THEN {} ELSE {1}} \cup
  {<<cx.id, "EofSound", r>> : x \in IF EofSoundR(b) THEN {} ELSE {1}}
Note(V) == viol' = viol \cup V /\ (IF V \subseteq viol THEN TRUE ELSE PrintT(<<"TRACE-VIOLATION", V \ viol>>))
Step(r, b) == rd' = Put(r, b) /\ Note(RdrViol(r, b))

TCall == /\ Ev("Call") /\ PC!Call(E.api, E.sc)
         /\ cx' = [id |-> E.id, limit |-> E.limit, total |-> E.total, main |-> 0, entPushes |-> 0]
         /\ rd' = <<>> /\ mg' = <<>> /\ UNCHANGED viol
TReturn == /\ Ev("Return") /\ call.phase = "in"
           /\ call' = [call EXCEPT !.phase = "idle", !.kind = E.kind, !.fatals = E.fatals, !.returns = @ + 1]
           /\ Note({<<cx.id, "ReturnAllowed", 0>> : x \in IF PC!ReturnAllowed(E.kind, E.fatals) THEN {} ELSE {1}}
                   \cup {<<cx.id, "AllReleased", r>> : r \in {x \in DOMAIN rd : rd[x].pc \notin {"new", "init"}}}   \* every reader was deleted
                                                                       \* (a reader whose constructor threw never came into being)
                   \cup {<<cx.id, "ResetEmpty", m>> : m \in {x \in DOMAIN mg : Depth(mg[x]) # 0}})
           /\ UNCHANGED <<cx, rd, mg>>

TRdrNew == /\ Ev("RdrNew") /\ call.phase = "in" /\ ~Has(E.r)
           /\ Step(E.r, NewReader(E.lw, E.type = 0 /\ E.from = 1))
           /\ cx' = IF cx.main = 0 THEN [cx EXCEPT !.main = E.r] ELSE cx
           /\ UNCHANGED <<call, mg>>
TRaw == /\ Ev("Raw") /\ Has(E.r)
        /\ LET b0 == rd[E.r]
               b1 == IF b0.pc = "new" THEN b0 ELSE XHeadOp(b0)
               n == E.ra - E.left
           IN /\ (b0.pc = "new" \/ (b0.pc = "xhead" /\ XHeadWantsRaw(b0)))
              /\ E.left = BytesLeft(b1)
              /\ RawRefreshPre(b1, n)
              /\ Step(E.r, RawRefreshOp(b1, n))
        /\ UNCHANGED <<call, cx, mg>>
TRdrInit == /\ Ev("RdrInit") /\ Has(E.r)
            /\ LET b0 == rd[E.r]
                   drop == b0.rawAvail - E.ra
               IN /\ E.ci = 0 /\ InitPre(b0, E.ri, drop, E.ca)
                  /\ Step(E.r, InitOp(b0, E.ri, drop, E.ca))
            /\ UNCHANGED <<call, cx, mg>>
TCRB == /\ Ev("CRB") /\ Has(E.r)
        /\ LET b0 == rd[E.r]
               n == E.ci - b0.charIdx
           IN /\ E.ca = b0.charAvail /\ ConsumePre(b0, n) /\ BeginPre(ConsumeOp(b0, n))
              /\ Step(E.r, BeginOp(ConsumeOp(b0, n)))
        /\ UNCHANGED <<call, cx, mg>>
TXc == /\ Ev("Xc") /\ Has(E.r)
       /\ LET b0 == rd[E.r]
              b1 == IF b0.pc = "xhead" THEN XHeadOp(b0) ELSE AfterRawOp(b0)
          IN /\ \/ b0.pc = "xhead" /\ ~XHeadWantsRaw(b0)
                \/ b0.pc = "afterraw" /\ ~AfterRawReturns0(b0)
             /\ b1.pc = "xcode" /\ E.max = b1.maxChars /\ E.ra = b1.rawAvail
             /\ E.eaten >= 0 /\ E.eaten <= BytesLeft(b1) /\ E.done >= 0 /\ E.done <= b1.maxChars          \* hard: stays inside the buffers
             /\ E.ri = b1.rawIdx + E.eaten
             /\ rd' = Put(E.r, TranscodeOp(b1, E.done, E.eaten))
             /\ Note(RdrViol(E.r, TranscodeOp(b1, E.done, E.eaten))
                     \cup {<<cx.id, "TranscoderContract", E.r>> : x \in IF TranscodePre(b1, E.done, E.eaten) THEN {} ELSE {1}})
       /\ UNCHANGED <<call, cx, mg>>
TCRE == /\ Ev("CRE") /\ Has(E.r)
        /\ LET b0 == rd[E.r]
               b1 == IF b0.pc = "afterraw" THEN AfterRawOp(b0) ELSE b0
               b2 == EndOp(b1)
           IN /\ (b0.pc = "fin" \/ (b0.pc = "afterraw" /\ AfterRawReturns0(b0)))
              /\ b1.pc = "fin"
              /\ E.spare = b1.spare /\ E.ca = b2.charAvail /\ (E.nomore = 1) = b2.noMore /\ (E.trail = 1) = b2.trail
              /\ rd' = Put(E.r, b2)
              /\ Note(RdrViol(E.r, b1) \cup RdrViol(E.r, b2))
        /\ UNCHANGED <<call, cx, mg>>
(* the document entity's reader: end of input only after every byte the harness's stream holds was read *)
TRdrDel == /\ Ev("RdrDel") /\ Has(E.r)
           /\ rd' = Drop(rd, E.r)
           /\ Note({<<cx.id, "EofAllRead", E.r>> : x \in IF (E.r = cx.main /\ rd[E.r].noMore /\ cx.total >= 0 /\ rd[E.r].read # cx.total) THEN {1} ELSE {}})
           /\ UNCHANGED <<call, cx, mg>>

Mgr(m) == IF m \in DOMAIN mg THEN mg[m] ELSE NewMgr
MgStep(m, r, isEntPush) ==
    /\ mg' = (m :> r) @@ mg
    /\ cx' = IF isEntPush THEN [cx EXCEPT !.entPushes = @ + 1] ELSE cx
    /\ Note({<<cx.id, "StackInv", m>> : x \in IF StackInvR(r) THEN {} ELSE {1}}
            \cup {<<cx.id, "CountBounded", m>> : x \in IF (isEntPush /\ cx.limit > 0 /\ cx.entPushes + 1 > cx.limit + 1) THEN {1} ELSE {}})   \* as coded: pushed, then counted
TPush == /\ Ev("Push") /\ call.phase = "in"
         /\ LET m0 == Mgr(E.m) IN
            IF E.ok = 1
            THEN /\ PushAccepts(m0, E.ent) /\ E.num >= m0.nextNum /\ Has(E.r)
                 /\ E.depth = Depth(m0)                                                              \* stack size after the push
                 /\ MgStep(E.m, [PushOp(m0, E.num, E.ent) EXCEPT !.nextNum = E.num + 1], E.ent # NoEnt /\ E.type = 1)
            ELSE /\ ~PushAccepts(m0, E.ent) /\ E.depth = Len(m0.stack)
                 /\ MgStep(E.m, m0, FALSE)
         /\ UNCHANGED <<call, rd>>
TPop == /\ Ev("Pop") /\ E.m \in DOMAIN mg
        /\ LET m0 == mg[E.m] IN
           /\ PopPre(m0) /\ m0.cur.num = E.num /\ E.depth = Len(m0.stack)
           /\ MgStep(E.m, PopOp(m0), FALSE)
        /\ UNCHANGED <<call, rd>>
TCleanTo == /\ Ev("CleanTo") /\ E.m \in DOMAIN mg
            /\ mg[E.m].cur.num = E.num /\ E.depth = Len(mg[E.m].stack)
            /\ UNCHANGED <<call, cx, rd, mg, viol>>
TRdrReset == /\ Ev("RdrReset")
             /\ E.depth = Depth(Mgr(E.m))
             /\ MgStep(E.m, ResetOp(Mgr(E.m)), FALSE)
             /\ UNCHANGED <<call, rd>>

TInit == l = 1 /\ call = PC!Idle /\ cx = [id |-> 0, limit |-> 0, total |-> 0, main |-> 0, entPushes |-> 0]
         /\ rd = <<>> /\ mg = <<>> /\ viol = {}
TNext == TCall \/ TReturn \/ TRdrNew \/ TRaw \/ TRdrInit \/ TCRB \/ TXc \/ TCRE \/ TRdrDel \/ TPush \/ TPop \/ TCleanTo \/ TRdrReset
TSpec == TInit /\ [][TNext]_tvars
(* hard statements on every visited state *)
THard == \A r \in DOMAIN rd : rd[r].pc \in {"new", "init", "idle", "xhead", "raw", "afterraw", "xcode", "fin", "dead"}
Accepted == /\ PrintT(<<"TRACE-RESULT", TLCGet("stats").diameter - 1, Len(Tr)>>)
            /\ TLCGet("stats").diameter - 1 = Len(Tr)
=============================================================================
