---------------------------- MODULE XSerGraphGen ----------------------------
(* Binder T for XSerGraph: one JSON line per complete behaviour (graph x block size x tamper), emitted when the
   load reaches a terminal state.  The harness (harness/xser_harness.cpp, mode t) builds the graph g out of real
   XSerializable objects whose serialize() follows the layout table printed here, runs the real XSerializeEngine
   with block size B, and compares: the store token stream (kinds, ids, offsets) with `stream`, the result of the
   load with `res`, and the loaded graph with g (RoundTrip says they are isomorphic). *)
EXTENDS XSerGraph, Json
Compact(s) == [i \in 1..Len(s) |-> <<s[i].k, s[i].c, s[i].n, s[i].off>>]
Lay(c) == [i \in 1..Len(Layout(c)) |-> <<Layout(c)[i].k, Layout(c)[i].c>>]
EmitT == (Terminal' /\ ~Terminal) =>
            PrintT(ToJson([B |-> B, tamper |-> tamper, g |-> g, stream |-> Compact(StoreFn(g, B)), res |-> pc', why |-> why',
                           exact |-> hitExact', blocks |-> w.blk, level |-> Level, root |-> RootClass,
                           lay |-> [c \in Classes |-> Lay(c)]]))
=============================================================================
