----------------------------- MODULE Concurrency -----------------------------
(* C17 - distinct parser / document / transcoder objects are safe to use concurrently.

   OPERATIONAL LAYER: threads executing calls that reach the process-wide shared state of xerces-c, with the
   locking protocol PER SITE AS CODED (one action per observable step = one H8 hook event or one
   XMLMutexMgr lock/unlock):

     GR(s)   RangeTokenMap::getRange on a lazily complemented range-token slot s (util/regx/RangeTokenMap.cpp):
               gr_fast  unlocked read of the slot pointer                    (double-checked fast path)
               enter    XMLMutexLock lockInit(&fMutex)
               gr_slow  re-check under the lock
               gr_build RangeToken::complementRanges into the map's token factory
               gr_map   (internal) the token's match map is built           (as every factory does at Initialize)
               gr_pub   elemMap->setRangeToken: the pointer becomes visible to the fast path
               leave    ~XMLMutexLock
               gr_use   the caller matches with the (shared, henceforth immutable) token
     CI      XMLScanner::commonInit: enter(sScannerMutex); fScannerId = ++gScannerId (ci_read; ci_incr); leave
     DT      owner-less DOMDocumentTypeImpl: enter(sDocumentMutex); allocate from the static document (dt_use); leave
     RG      DOMImplementationRegistry::getDOMImplementation: enter(gDOMImplSrcVectorMutex); rg_len; [rg_add]; leave
     LCP     ICULCPTranscoder: enter(fMutex); ucnv_* on the one shared converter (lcp_use); leave
     SPA(p,x) XMLSynchronizedStringPool::addOrFind: sp_const (unlocked look-up in the constant pool);
               enter(pool mutex); sp_find, sp_add (XMLStringPool::addOrFind = look-up, addNewEntry); leave -> id + constCount
     SPG(p,x) XMLSynchronizedStringPool::getId: sp_const; enter; spg_get; leave
     GPC(g)  XMLGrammarPoolImpl::cacheGrammar on the LOCKED pool: refused, nothing changes
     GPU     XMLGrammarPoolImpl::getURIStringPool on the locked pool: hands out the synchronized pool
   (XMLPlatformUtils::fgAtomicMutex is created by Initialize but has no user in this build - only the WinSock
    net accessor locks it - so it is a mutex that is never acquired.)

   Sequentially consistent memory at event granularity.  NoLock names the sites whose XMLMutexLock is
   deleted: {} is the code as pinned; the negative configurations (Concurrency.neg-*.cfg) show that every
   declarative property below really depends on the lock at its site.  LazyMap = TRUE is the variant
   "publish the token before its match map exists and let the first matcher build it without a lock".

   DECLARATIVE LAYER: MutualExclusion, GuardedWrite, UnlockedReadsOnlyWhereDoubleChecked, InitOnce,
   UniqueScannerIds, StringPoolIdsFunctional, PoolAppendOnly, LockedPoolConstant, deadlock freedom (TLC) and
   Termination under weak fairness of every thread. *)
EXTENDS Naturals, Sequences, FiniteSets, TLC

CONSTANTS Threads,     \* thread ids (naturals)
          Slots,       \* lazily built range-token slots
          Pools,       \* synchronized string pools, named by their mutex ("SP1", ...)
          Strs,        \* string ids
          ConstStrs,   \* sequence of Strs: the constant pool behind every synchronized pool
          Grams,       \* grammar keys offered to the locked pool
          Grams0,      \* grammars in the pool when it was locked
          RegLen0,     \* DOM implementation sources registered initially (0: registry never used; 1: after Initialize)
          ProgChoices, \* set of program assignments [Threads -> sequences of ops]
          NoLock,      \* sites whose XMLMutexLock is deleted ({} = as coded)
          LazyMap      \* FALSE = token complete before it is published

VARIABLES pc, cur, prog, owner, ptr, tok, builds, scanid, ids, sdoc, reglen, conv, pool, grams, reg, ret,
          given, seen, uris, step

vars == <<pc, cur, prog, owner, ptr, tok, builds, scanid, ids, sdoc, reglen, conv, pool, grams, reg, ret,
          given, seen, uris, step>>

StaticMutexes == {"RTM", "SCN", "DOC", "REG", "LCP"}
Mutexes == StaticMutexes \cup Pools
NoOp == [k |-> "none", s |-> 0, p |-> "", x |-> 0]
Op(k, s, p, x) == [k |-> k, s |-> s, p |-> p, x |-> x]
NoStep == [t |-> 0, a |-> "init", cell |-> "", rw |-> "", held |-> TRUE, v |-> 0]

SiteOf(k) == CASE k = "GR" -> "gr" [] k = "CI" -> "ci" [] k = "DT" -> "dt" [] k = "RG" -> "rg"
               [] k = "LCP" -> "lcp" [] k = "SPA" -> "spa" [] k = "SPG" -> "spg" [] OTHER -> "none"
MutexOf(op) == CASE op.k = "GR" -> "RTM" [] op.k = "CI" -> "SCN" [] op.k = "DT" -> "DOC" [] op.k = "RG" -> "REG"
                 [] op.k = "LCP" -> "LCP" [] op.k \in {"SPA", "SPG"} -> op.p [] OTHER -> "none"
Locked(t) == SiteOf(cur[t].k) \notin NoLock           \* does thread t's current call take its lock?
Holds(t, m) == m \in Mutexes /\ owner[m] = t

ConstCount == Len(ConstStrs)
IndexOf(seq, x) == IF \E i \in 1..Len(seq) : seq[i] = x THEN CHOOSE i \in 1..Len(seq) : seq[i] = x ELSE 0

Init ==
    /\ pc = [t \in Threads |-> "idle"]
    /\ cur = [t \in Threads |-> NoOp]
    /\ prog \in ProgChoices
    /\ owner = [m \in Mutexes |-> 0]
    /\ ptr = [s \in Slots |-> 0]
    /\ tok = [s \in Slots |-> "Null"]
    /\ builds = [s \in Slots |-> 0]
    /\ scanid = 0 /\ ids = {}
    /\ sdoc = 0 /\ reglen = RegLen0 /\ conv = 0
    /\ pool = [p \in Pools |-> <<>>]
    /\ grams = Grams0
    /\ reg = [t \in Threads |-> 0]
    /\ ret = [t \in Threads |-> 0]
    /\ given = [p \in Pools |-> {}]
    /\ seen = {}
    /\ uris = {}
    /\ step = NoStep

(* ---- bookkeeping shared by all actions ---- *)
Acc(t, a, cell, rw, m, v) == step' = [t |-> t, a |-> a, cell |-> cell, rw |-> rw, held |-> Holds(t, m), v |-> v]
Quiet(t, a, v) == step' = [t |-> t, a |-> a, cell |-> "", rw |-> "", held |-> TRUE, v |-> v]
Goto(t, l) == pc' = [pc EXCEPT ![t] = l]
Finish(t) == /\ pc' = [pc EXCEPT ![t] = "idle"] /\ cur' = [cur EXCEPT ![t] = NoOp]
Begin(t, op) == pc[t] = "idle" /\ cur[t] = NoOp

(* ---- generic lock acquisition / release at a site ---- *)
EnterPc(k) == CASE k = "GR" -> "gr_slow" [] k = "CI" -> "ci_read" [] k = "DT" -> "dt_use" [] k = "RG" -> "rg_len"
                [] k = "LCP" -> "lcp_use" [] k = "SPA" -> "sp_find" [] k = "SPG" -> "spg_get" [] OTHER -> "idle"
\* enter from idle (sites whose first step is the lock): CI DT RG LCP
EnterFirst(t, op) ==
    /\ Begin(t, op) /\ op.k \in {"CI", "DT", "RG", "LCP"}
    /\ SiteOf(op.k) \notin NoLock
    /\ owner[MutexOf(op)] = 0
    /\ owner' = [owner EXCEPT ![MutexOf(op)] = t]
    /\ cur' = [cur EXCEPT ![t] = op]
    /\ Goto(t, EnterPc(op.k))
    /\ Quiet(t, "enter", 0)
    /\ UNCHANGED <<ptr, tok, builds, scanid, ids, sdoc, reglen, conv, pool, grams, reg, ret, given, seen, uris>>
\* the same sites with the lock deleted: the call starts directly (no observable step of its own)
SkipFirst(t, op) ==
    /\ Begin(t, op) /\ op.k \in {"CI", "DT", "RG", "LCP"}
    /\ SiteOf(op.k) \in NoLock
    /\ cur' = [cur EXCEPT ![t] = op]
    /\ Goto(t, EnterPc(op.k))
    /\ Quiet(t, "nolock", 0)
    /\ UNCHANGED <<owner, ptr, tok, builds, scanid, ids, sdoc, reglen, conv, pool, grams, reg, ret, given, seen, uris>>
\* enter after an unlocked first look (GR, SPA, SPG)
Enter(t) ==
    /\ pc[t] = "enter"
    /\ IF Locked(t) THEN /\ owner[MutexOf(cur[t])] = 0
                         /\ owner' = [owner EXCEPT ![MutexOf(cur[t])] = t]
                         /\ Quiet(t, "enter", 0)
                    ELSE /\ UNCHANGED owner /\ Quiet(t, "nolock", 0)
    /\ Goto(t, EnterPc(cur[t].k))
    /\ UNCHANGED <<cur, ptr, tok, builds, scanid, ids, sdoc, reglen, conv, pool, grams, reg, ret, given, seen, uris>>
Leave(t) ==
    /\ pc[t] = "leave"
    /\ IF Locked(t) THEN /\ owner[MutexOf(cur[t])] = t
                         /\ owner' = [owner EXCEPT ![MutexOf(cur[t])] = 0]
                         /\ Quiet(t, "leave", 0)
                    ELSE /\ UNCHANGED owner /\ Quiet(t, "nounlock", 0)
    /\ IF cur[t].k = "GR" THEN Goto(t, "gr_use") /\ UNCHANGED <<cur, given>>
       ELSE /\ Finish(t)
            /\ given' = IF cur[t].k \in {"SPA", "SPG"} /\ ret[t] # 0
                        THEN [given EXCEPT ![cur[t].p] = @ \cup {<<cur[t].x, ret[t]>>}] ELSE given
    /\ UNCHANGED <<ptr, tok, builds, scanid, ids, sdoc, reglen, conv, pool, grams, reg, ret, seen, uris>>

(* ---- GR: RangeTokenMap::getRange(keyword, complement) on a lazy slot, then matching with the token ---- *)
GrFast(t, op) ==
    /\ Begin(t, op) /\ op.k = "GR"
    /\ cur' = [cur EXCEPT ![t] = op]
    /\ Acc(t, "gr_fast", "tokptr", "r", "RTM", ptr[op.s])
    /\ Goto(t, IF ptr[op.s] = 1 THEN "gr_use" ELSE "enter")
    /\ UNCHANGED <<owner, ptr, tok, builds, scanid, ids, sdoc, reglen, conv, pool, grams, reg, ret, given, seen, uris>>
GrSlow(t) ==
    /\ pc[t] = "gr_slow"
    /\ Acc(t, "gr_slow", "tokptr", "r", "RTM", ptr[cur[t].s])
    /\ Goto(t, IF ptr[cur[t].s] = 1 THEN "leave" ELSE "gr_build")
    /\ UNCHANGED <<cur, owner, ptr, tok, builds, scanid, ids, sdoc, reglen, conv, pool, grams, reg, ret, given, seen, uris>>
GrBuild(t) ==
    /\ pc[t] = "gr_build"
    /\ tok' = [tok EXCEPT ![cur[t].s] = "Ranges"]
    /\ builds' = [builds EXCEPT ![cur[t].s] = @ + 1]
    /\ Acc(t, "gr_build", "tokfactory", "w", "RTM", 0)
    /\ Goto(t, IF LazyMap THEN "gr_pub" ELSE "gr_map")
    /\ UNCHANGED <<cur, owner, ptr, scanid, ids, sdoc, reglen, conv, pool, grams, reg, ret, given, seen, uris>>
GrMap(t) ==
    /\ pc[t] = "gr_map"
    /\ tok' = [tok EXCEPT ![cur[t].s] = "Ready"]
    /\ Acc(t, "gr_map", "token", "w", "RTM", 0)
    /\ Goto(t, "gr_pub")
    /\ UNCHANGED <<cur, owner, ptr, builds, scanid, ids, sdoc, reglen, conv, pool, grams, reg, ret, given, seen, uris>>
GrPub(t) ==
    /\ pc[t] = "gr_pub"
    /\ ptr' = [ptr EXCEPT ![cur[t].s] = 1]
    /\ Acc(t, "gr_pub", "tokptr", "w", "RTM", 0)
    /\ Goto(t, "leave")
    /\ UNCHANGED <<cur, owner, tok, builds, scanid, ids, sdoc, reglen, conv, pool, grams, reg, ret, given, seen, uris>>
\* matching with the shared token: it is read without any lock, which is sound only if it is immutable by now
GrUse(t) ==
    /\ pc[t] = "gr_use"
    /\ tok[cur[t].s] \in {"Ready", "Half"}
    /\ seen' = seen \cup {tok[cur[t].s]}
    /\ Acc(t, "gr_use", "token", "r", "none", IF tok[cur[t].s] = "Ready" THEN 1 ELSE 0)
    /\ Finish(t)
    /\ UNCHANGED <<owner, ptr, tok, builds, scanid, ids, sdoc, reglen, conv, pool, grams, reg, ret, given, uris>>
\* LazyMap variant only: the first matcher allocates the map (pointer visible, content not yet) and then fills it
MapAlloc(t) ==
    /\ LazyMap /\ pc[t] = "gr_use" /\ tok[cur[t].s] = "Ranges"
    /\ tok' = [tok EXCEPT ![cur[t].s] = "Half"]
    /\ Acc(t, "map_alloc", "token", "w", "none", 0)
    /\ Goto(t, "gr_mapfill")
    /\ UNCHANGED <<cur, owner, ptr, builds, scanid, ids, sdoc, reglen, conv, pool, grams, reg, ret, given, seen, uris>>
MapFill(t) ==
    /\ pc[t] = "gr_mapfill"
    /\ tok' = [tok EXCEPT ![cur[t].s] = "Ready"]
    /\ Acc(t, "map_done", "token", "w", "none", 0)
    /\ Goto(t, "gr_use")
    /\ UNCHANGED <<cur, owner, ptr, builds, scanid, ids, sdoc, reglen, conv, pool, grams, reg, ret, given, seen, uris>>

(* ---- CI: XMLScanner::commonInit ---- *)
CiRead(t) ==
    /\ pc[t] = "ci_read"
    /\ reg' = [reg EXCEPT ![t] = scanid]
    /\ Acc(t, "ci_read", "scanid", "r", "SCN", scanid)
    /\ Goto(t, "ci_incr")
    /\ UNCHANGED <<cur, owner, ptr, tok, builds, scanid, ids, sdoc, reglen, conv, pool, grams, ret, given, seen, uris>>
CiIncr(t) ==
    /\ pc[t] = "ci_incr"
    /\ scanid' = reg[t] + 1
    /\ ids' = ids \cup {<<t, Cardinality({i \in ids : i[1] = t}) + 1, reg[t] + 1>>}
    /\ Acc(t, "ci_incr", "scanid", "w", "SCN", reg[t] + 1)
    /\ Goto(t, "leave")
    /\ UNCHANGED <<cur, owner, ptr, tok, builds, sdoc, reglen, conv, pool, grams, reg, ret, given, seen, uris>>

(* ---- DT: owner-less document type allocated from the static document ---- *)
DtUse(t) ==
    /\ pc[t] = "dt_use"
    /\ sdoc' = sdoc + 1
    /\ Acc(t, "dt_use", "sdoc", "w", "DOC", 0)
    /\ Goto(t, "leave")
    /\ UNCHANGED <<cur, owner, ptr, tok, builds, scanid, ids, reglen, conv, pool, grams, reg, ret, given, seen, uris>>

(* ---- RG: DOMImplementationRegistry ---- *)
RgLen(t) ==
    /\ pc[t] = "rg_len"
    /\ Acc(t, "rg_len", "regvec", "r", "REG", reglen)
    /\ Goto(t, IF reglen = 0 THEN "rg_add" ELSE "leave")
    /\ UNCHANGED <<cur, owner, ptr, tok, builds, scanid, ids, sdoc, reglen, conv, pool, grams, reg, ret, given, seen, uris>>
RgAdd(t) ==
    /\ pc[t] = "rg_add"
    /\ reglen' = reglen + 1
    /\ Acc(t, "rg_add", "regvec", "w", "REG", reglen + 1)
    /\ Goto(t, "leave")
    /\ UNCHANGED <<cur, owner, ptr, tok, builds, scanid, ids, sdoc, conv, pool, grams, reg, ret, given, seen, uris>>

(* ---- LCP: the one local-code-page converter ---- *)
LcpUse(t) ==
    /\ pc[t] = "lcp_use"
    /\ conv' = 1 - conv
    /\ Acc(t, "lcp_use", "conv", "w", "LCP", 0)
    /\ Goto(t, "leave")
    /\ UNCHANGED <<cur, owner, ptr, tok, builds, scanid, ids, sdoc, reglen, pool, grams, reg, ret, given, seen, uris>>

(* ---- SPA / SPG: XMLSynchronizedStringPool ---- *)
SpConst(t, op) ==
    /\ Begin(t, op) /\ op.k \in {"SPA", "SPG"}
    /\ LET i == IndexOf(ConstStrs, op.x) IN
       /\ Acc(t, "sp_const", "constpool", "r", "none", i)
       /\ IF i # 0 THEN /\ UNCHANGED <<pc, cur>>
                        /\ given' = [given EXCEPT ![op.p] = @ \cup {<<op.x, i>>}]
                        /\ ret' = [ret EXCEPT ![t] = i]
                   ELSE /\ cur' = [cur EXCEPT ![t] = op] /\ Goto(t, "enter")
                        /\ UNCHANGED <<given, ret>>
    /\ UNCHANGED <<owner, ptr, tok, builds, scanid, ids, sdoc, reglen, conv, pool, grams, reg, seen, uris>>
\* XMLStringPool::addOrFind is a look-up followed (on a miss) by addNewEntry: two steps, atomic only under the pool's mutex
SpFind(t) ==
    /\ pc[t] = "sp_find"
    /\ reg' = [reg EXCEPT ![t] = IndexOf(pool[cur[t].p], cur[t].x)]
    /\ Acc(t, "sp_find", "spool", "r", cur[t].p, IndexOf(pool[cur[t].p], cur[t].x))
    /\ Goto(t, "sp_add")
    /\ UNCHANGED <<cur, owner, ptr, tok, builds, scanid, ids, sdoc, reglen, conv, pool, grams, ret, given, seen, uris>>
SpAdd(t) ==
    /\ pc[t] = "sp_add"
    /\ LET p == cur[t].p  x == cur[t].x  i == reg[t] IN
       /\ pool' = IF i = 0 THEN [pool EXCEPT ![p] = Append(@, x)] ELSE pool
       /\ ret' = [ret EXCEPT ![t] = (IF i = 0 THEN Len(pool[p]) + 1 ELSE i) + ConstCount]
       /\ Acc(t, "sp_add", "spool", "w", p, IF i = 0 THEN Len(pool[p]) + 1 ELSE i)
    /\ Goto(t, "leave")
    /\ UNCHANGED <<cur, owner, ptr, tok, builds, scanid, ids, sdoc, reglen, conv, grams, reg, given, seen, uris>>
SpgGet(t) ==
    /\ pc[t] = "spg_get"
    /\ LET p == cur[t].p  i == IndexOf(pool[p], cur[t].x) IN
       /\ ret' = [ret EXCEPT ![t] = IF i = 0 THEN 0 ELSE i + ConstCount]
       /\ Acc(t, "spg_get", "spool", "r", p, IF i = 0 THEN 0 ELSE i + ConstCount)
    /\ Goto(t, "leave")
    /\ UNCHANGED <<cur, owner, ptr, tok, builds, scanid, ids, sdoc, reglen, conv, pool, grams, reg, given, seen, uris>>

(* ---- GPC / GPU: the locked grammar pool (immutable, so no lock) ---- *)
GpCache(t, op) ==
    /\ Begin(t, op) /\ op.k = "GPC"
    /\ Acc(t, "gpc", "gpool", "r", "none", 0)            \* cacheGrammar answers false, pool unchanged
    /\ UNCHANGED <<pc, cur, owner, ptr, tok, builds, scanid, ids, sdoc, reglen, conv, pool, grams, reg, ret, given, seen, uris>>
GpUri(t, op) ==
    /\ Begin(t, op) /\ op.k = "GPU"
    /\ uris' = uris \cup {"sync"}
    /\ Acc(t, "gpu", "gpool", "r", "none", 1)            \* 1 = the synchronized pool
    /\ UNCHANGED <<pc, cur, owner, ptr, tok, builds, scanid, ids, sdoc, reglen, conv, pool, grams, reg, ret, given, seen>>

(* ---- composition ---- *)
\* a thread's first step of a call consumes the head of its program
Do1(t, A(_, _)) == prog[t] # <<>> /\ A(t, Head(prog[t])) /\ prog' = [prog EXCEPT ![t] = Tail(@)]
Do(t, A(_)) == A(t) /\ UNCHANGED prog
First(t, op) == GrFast(t, op) \/ EnterFirst(t, op) \/ SkipFirst(t, op) \/ SpConst(t, op) \/ GpCache(t, op) \/ GpUri(t, op)
Later(t) == Enter(t) \/ Leave(t) \/ GrSlow(t) \/ GrBuild(t) \/ GrMap(t) \/ GrPub(t) \/ GrUse(t) \/ MapAlloc(t) \/ MapFill(t)
            \/ CiRead(t) \/ CiIncr(t) \/ DtUse(t) \/ RgLen(t) \/ RgAdd(t) \/ LcpUse(t) \/ SpFind(t) \/ SpAdd(t) \/ SpgGet(t)
ThreadNext(t) == Do1(t, First) \/ Do(t, Later)
AllDone == \A t \in Threads : pc[t] = "idle" /\ prog[t] = <<>>
Terminated == AllDone /\ UNCHANGED vars
\* named disjuncts (TLC reports coverage per name)
AGrFast == \E t \in Threads : Do1(t, GrFast)
AEnterFirst == \E t \in Threads : Do1(t, EnterFirst)
ASkipFirst == \E t \in Threads : Do1(t, SkipFirst)
ASpConst == \E t \in Threads : Do1(t, SpConst)
AGpCache == \E t \in Threads : Do1(t, GpCache)
AGpUri == \E t \in Threads : Do1(t, GpUri)
AEnter == \E t \in Threads : Do(t, Enter)
ALeave == \E t \in Threads : Do(t, Leave)
AGrSlow == \E t \in Threads : Do(t, GrSlow)
AGrBuild == \E t \in Threads : Do(t, GrBuild)
AGrMap == \E t \in Threads : Do(t, GrMap)
AGrPub == \E t \in Threads : Do(t, GrPub)
AGrUse == \E t \in Threads : Do(t, GrUse)
AMapAlloc == \E t \in Threads : Do(t, MapAlloc)
AMapFill == \E t \in Threads : Do(t, MapFill)
ACiRead == \E t \in Threads : Do(t, CiRead)
ACiIncr == \E t \in Threads : Do(t, CiIncr)
ADtUse == \E t \in Threads : Do(t, DtUse)
ARgLen == \E t \in Threads : Do(t, RgLen)
ARgAdd == \E t \in Threads : Do(t, RgAdd)
ALcpUse == \E t \in Threads : Do(t, LcpUse)
ASpFind == \E t \in Threads : Do(t, SpFind)
ASpAdd == \E t \in Threads : Do(t, SpAdd)
ASpgGet == \E t \in Threads : Do(t, SpgGet)
Next == AGrFast \/ AEnterFirst \/ ASkipFirst \/ ASpConst \/ AGpCache \/ AGpUri \/ AEnter \/ ALeave \/ AGrSlow \/ AGrBuild \/ AGrMap
        \/ AGrPub \/ AGrUse \/ AMapAlloc \/ AMapFill \/ ACiRead \/ ACiIncr \/ ADtUse \/ ARgLen \/ ARgAdd \/ ALcpUse \/ ASpFind \/ ASpAdd \/ ASpgGet
        \/ Terminated
Spec == Init /\ [][Next]_vars /\ \A t \in Threads : WF_vars(ThreadNext(t))

(* ======================================= DECLARATIVE LAYER ======================================= *)
CSPcs(m) == CASE m = "RTM" -> {"gr_slow", "gr_build", "gr_map", "gr_pub"}
              [] m = "SCN" -> {"ci_read", "ci_incr"}
              [] m = "DOC" -> {"dt_use"}
              [] m = "REG" -> {"rg_len", "rg_add"}
              [] m = "LCP" -> {"lcp_use"}
              [] OTHER -> {"sp_find", "sp_add", "spg_get"}
InCS(t, m) == cur[t] # NoOp /\ MutexOf(cur[t]) = m /\ (pc[t] \in CSPcs(m) \/ pc[t] = "leave")

TypeOK == /\ pc \in [Threads -> {"idle", "enter", "leave", "gr_slow", "gr_build", "gr_map", "gr_pub", "gr_use", "gr_mapfill",
                                 "ci_read", "ci_incr", "dt_use", "rg_len", "rg_add", "lcp_use", "sp_find", "sp_add", "spg_get"}]
          /\ owner \in [Mutexes -> Threads \cup {0}]
          /\ ptr \in [Slots -> {0, 1}]
          /\ tok \in [Slots -> {"Null", "Ranges", "Half", "Ready"}]

\* at most one thread inside the critical section of a mutex; a mutex is owned exactly by the thread inside
MutualExclusion == \A m \in Mutexes : Cardinality({t \in Threads : InCS(t, m)}) <= 1
OwnerConsistent == NoLock = {} => \A m \in Mutexes : \A t \in Threads : (owner[m] = t) <=> InCS(t, m)
AtMostOneLockHeld == \A t \in Threads : Cardinality({m \in Mutexes : owner[m] = t}) <= 1
\* every write to a shared cell happens with the mutex that guards the cell held by the writer
GuardedWrite == step.rw = "w" => step.held
\* reads without the lock happen only at the double-checked fast path and on objects that are immutable by then
UnlockedReadsOnlyWhereDoubleChecked ==
    (step.rw = "r" /\ ~step.held) => step.a \in {"gr_fast"} \cup {"gr_use", "sp_const", "gpc", "gpu"}
\* each lazily built object is built exactly once, is complete when it becomes visible, and no user sees it half-built
InitOnce == /\ \A s \in Slots : builds[s] <= 1 /\ (ptr[s] = 1 => tok[s] = "Ready")
            /\ seen \subseteq {"Ready"}
            /\ reglen <= 1
BuiltIffPublished == AllDone => \A s \in Slots : (builds[s] = 1) <=> (ptr[s] = 1)
\* scanner ids: no two scanners share an id; ids are handed out densely
UniqueScannerIds == /\ \A i, j \in ids : i[3] = j[3] => i = j
                    /\ {i[3] : i \in ids} = 1..Cardinality(ids)
                    /\ (\A t \in Threads : pc[t] # "ci_incr") => scanid = Cardinality(ids)
ReadStable == NoLock = {} => \A t \in Threads : pc[t] = "ci_incr" => reg[t] = scanid
\* string pools: one id per string, one string per id, the id says where the string is, ids never change
IdOf(p, x) == IF IndexOf(ConstStrs, x) # 0 THEN IndexOf(ConstStrs, x)
              ELSE IF IndexOf(pool[p], x) # 0 THEN IndexOf(pool[p], x) + ConstCount ELSE 0
StringPoolIdsFunctional ==
    \A p \in Pools : /\ \A a, b \in given[p] : (a[1] = b[1]) <=> (a[2] = b[2])
                     /\ \A a \in given[p] : IdOf(p, a[1]) = a[2]
                     /\ \A i, j \in 1..Len(pool[p]) : pool[p][i] = pool[p][j] => i = j
IsPrefix(a, b) == Len(a) <= Len(b) /\ \A i \in 1..Len(a) : a[i] = b[i]
PoolAppendOnly == [][\A p \in Pools : IsPrefix(pool[p], pool'[p])]_vars
\* a locked grammar pool does not change and never hands out its unsynchronized string pool
LockedPoolConstant == grams = Grams0 /\ uris \subseteq {"sync"}
Termination == <>[]AllDone

(* ---- programs used by the configurations ---- *)
AllOps == {Op("GR", s, "", 0) : s \in Slots} \cup {Op("CI", 0, "", 0), Op("DT", 0, "", 0), Op("RG", 0, "", 0), Op("LCP", 0, "", 0)}
          \cup {Op("SPA", 0, p, x) : p \in Pools, x \in Strs} \cup {Op("SPG", 0, p, x) : p \in Pools, x \in Strs}
          \cup {Op("GPC", 0, "", g) : g \in Grams} \cup {Op("GPU", 0, "", 0)}
SeqsUpTo(S, n) == UNION {[1..k -> S] : k \in 0..n}
ConstPool1 == <<1>>
ConstPool0 == <<>>
\* the sites with a read-modify-write under their lock (two calls per thread are explored for these)
CoreOps == {Op("GR", s, "", 0) : s \in Slots} \cup {Op("CI", 0, "", 0), Op("RG", 0, "", 0)}
           \cup {Op("SPA", 0, p, x) : p \in Pools, x \in Strs} \cup {Op("SPG", 0, p, x) : p \in Pools, x \in Strs \ {ConstStrs[i] : i \in 1..Len(ConstStrs)}}
Choices1 == [Threads -> SeqsUpTo(AllOps, 1)]          \* every thread: at most one call, any op
ChoicesCore2 == [Threads -> SeqsUpTo(CoreOps, 2)]      \* every thread: at most two calls at the read-modify-write sites
ChoicesCore3 == [Threads -> SeqsUpTo(CoreOps, 3)]
=============================================================================
