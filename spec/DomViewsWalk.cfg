SPECIFICATION WSpec
CONSTANTS
  MaxId = 10
  NDocs = 1
  NNames = 2
  NStrs = 3
  MaxData = 4
  MaxOps = 40
  MaxKids = 4
  NIt = 2
  NRg = 2
  NLs = 1
  NWk = 0
  WBuild = 10
INVARIANT EmitW
INVARIANT TreeInv
INVARIANT ViewInv
CHECK_DEADLOCK FALSE
