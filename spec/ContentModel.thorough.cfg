SPECIFICATION Spec
CONSTANTS
  NNames = 3
  Depth = 2
  MaxLen = 5
  WithItems = FALSE
INVARIANT Agree
INVARIANT PosAgree
INVARIANT TypeOK
CHECK_DEADLOCK FALSE
