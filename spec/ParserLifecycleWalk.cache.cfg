SPECIFICATION WSpec
CONSTANTS
  DocIds = {11, 12}
  Loadable = {"X"}
  Vals = {1}
  MaxOps = 7
  MaxK = 0
  Feats = {"use", "schema"}
  AsCoded = FALSE
  Extra = FALSE
  Forget = {}
INVARIANT EmitW
INVARIANT OutcomeIsFunctionOfInputs
CHECK_DEADLOCK FALSE
