SPECIFICATION GSpec
CONSTANTS
  PrefixSeq <- ResPrefixes
  UriSeq <- ResUris
  ElemPrefixSeq <- ResElemPrefixes
  AttrPrefixSeq <- ResAttrPrefixes
  LocalSeq <- LocalsA
  Versions = {"1.0", "1.1"}
  MaxDepth = 2
  MaxElems = 2
  MaxDecls = 2
  MaxAttrs = 2
  BuildElems = 1
  BuildDecls = 1
  BuildPrefixSeq <- NoPrefix
  ProbeBudget = 3
  BigNs = {}
  BigAttrNs = {}
ACTION_CONSTRAINT EmitT
CHECK_DEADLOCK FALSE
