SPECIFICATION Spec
CONSTANTS
  KChar = 3
  KRaw = 5
  MaxLen = 4
  Widths = {1, 2, 3, 4}
  LowWaters = {0, 2}
  AllowTrunc = TRUE
  FixedEof = TRUE
  MaxWant = 2
INVARIANT TypeOK
INVARIANT IndexBounds
INVARIANT ByteConservation
INVARIANT CharConservation
INVARIANT Progress
INVARIANT EofSound
INVARIANT NoFormatError
INVARIANT DeliveredPrefix
INVARIANT DeliveredAll
INVARIANT LookAheadSound
CHECK_DEADLOCK FALSE
