SPECIFICATION Spec
CONSTANTS
  Apis = {"SAX"}
  Scanners = {"WF"}
  Resolvers = {"none"}
  Vals = {"never"}
  NsSet = {TRUE}
  SubsetForms = {"rel"}
  HintForms = {"rel"}
  HintKinds = {"none", "nsl"}
INVARIANT TypeOK
CHECK_DEADLOCK FALSE
