SPECIFICATION GSpec
CONSTANTS
  MaxId = 3
  NDocs = 1
  NNames = 2
  NStrs = 1
  MaxData = 1
  MaxOps = 1
  MaxKids = 4
  NIt = 1
  NRg = 1
  NLs = 0
  NWk = 0
  MaxViewOps = 2
  MaxPost = 0
  BuildKinds = {"elem", "text", "frag"}
  GModes = {"allRejB"}
  GListNames = {"a", "*"}
  GKinds = {"it", "rg"}
  GMut = {"struct", "text"}
  GOkOnly = FALSE
  GFreshMaxId = 3
INVARIANT TreeInv
INVARIANT ViewInv
PROPERTY GIterStable
PROPERTY GRangeMoves
PROPERTY GFailedOpUnchanged
ACTION_CONSTRAINT EmitT
VIEW GView
CHECK_DEADLOCK FALSE
