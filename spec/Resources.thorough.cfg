SPECIFICATION Spec
CONSTANTS
  Apis = {"SAX"}
  Scanners = {"IG", "WF", "DG", "SG"}
  Resolvers = {"none", "null", "src", "part"}
  Vals = {"never", "auto", "always"}
  NsSet = {TRUE, FALSE}
  SubsetForms = {"rel", "http", "file"}
  HintForms = {"rel", "file"}
  HintKinds = {"none", "nsl", "sl", "nsld"}
INVARIANT TypeOK
INVARIANT OnlyPermittedOpened
INVARIANT NothingWhenDisabled
INVARIANT ResolverFirst
INVARIANT SourceReplacesDefault
INVARIANT BaseIsContainingEntity
INVARIANT AnswersFollowOffers
CHECK_DEADLOCK FALSE
