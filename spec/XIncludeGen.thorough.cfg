SPECIFICATION Spec
CONSTANTS
  NF = 3
  Budget = 3
  DirCodes = {0, 1, 2, 3}
  Odd = TRUE
INVARIANT XIncludeInv
INVARIANT EmitCase
