SPECIFICATION Spec
CONSTANTS
  PrefixSeq <- ResPrefixes
  UriSeq <- ResUris
  ElemPrefixSeq <- ResElemPrefixes
  AttrPrefixSeq <- ResAttrPrefixes
  LocalSeq <- LocalsA
  Versions = {"1.0", "1.1"}
  MaxDepth = 2
  MaxElems = 50
  MaxDecls = 2
  MaxAttrs = 1
INVARIANT NsInv
PROPERTY StepInv ErrorsExact
VIEW View
CHECK_DEADLOCK FALSE
