---------------------------- MODULE SerializerFmt ----------------------------
(* XMLFormatter alone: every row of the decision table Item(mode, unrep flag, class, encoding class, version), on all
   values of at most MaxFmt characters.  One JSON line per case [mode, unrep, enc, v11, value, items, throws]; the
   harness calls XMLFormatter::formatBuf with these arguments on a MemBufFormatTarget. *)
EXTENDS SerializerMC, Json
CONSTANT MaxFmt
VARIABLE c
Modes == {"No", "Std", "Attr", "Char"}
Unreps == {"CharRef", "Fail", "Replace"}
FInit == /\ Init
         /\ c \in [mode : Modes, unrep : Unreps, enc : AllEncs, v11 : BOOLEAN, v : {<<>>}]
FNext == /\ Len(c.v) < MaxFmt
         /\ \E ch \in AllClasses : c' = [c EXCEPT !.v = Append(@, ch)]
         /\ UNCHANGED vars
FSpec == FInit /\ [][FNext]_<<vars, c>>
Out == FormatBuf(c.mode, c.unrep, c.enc, c.v11, c.v)
\* "escapes exactly the characters its escape mode requires", character by character
FmtExact == \A j \in 1..Len(c.v) :
    LET it == Out[j]
        ch == c.v[j] IN
    /\ it[2] = ch                                                             \* nothing is lost or replaced by another character ...
    /\ it[1] = "s" <=> (~Rep(c.enc, ch) /\ c.unrep = "Replace")               \* ... except on request
    /\ it[1] = "x" <=> (~Rep(c.enc, ch) /\ c.unrep = "Fail")
    /\ it[1] = "e" <=> (ch \in EscList(c.mode) /\ ch \in PreEnt)
    /\ it[1] = "r" <=> \/ ~Rep(c.enc, ch) /\ c.unrep = "CharRef"
                       \/ Rep(c.enc, ch) /\ ch \notin PreEnt /\ (ch \in EscList(c.mode) \/ (c.mode # "No" /\ c.v11 /\ ch = "c0"))
    /\ it[1] = "c" <=> (Rep(c.enc, ch) /\ ~Escaped(c.mode, c.v11, ch))
\* markup-significant characters never reach character data / attribute values literally
NoMarkupLeak == \A j \in 1..Len(c.v) : Out[j][1] = "c" =>
                   /\ c.mode = "Char" => c.v[j] \notin {"lt", "amp", "gt", "cr"}
                   /\ c.mode = "Attr" => c.v[j] \notin {"lt", "amp", "quot", "cr", "lf", "tab"}
                   /\ c.mode = "Std" => c.v[j] \notin PreEnt
EmitF == PrintT(ToJson(<<c.mode, c.unrep, c.enc, c.v11, c.v, (IF Fails(Out) THEN <<>> ELSE Out), Fails(Out)>>))
=============================================================================
