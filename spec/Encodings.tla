------------------------------ MODULE Encodings ------------------------------
(* Character encodings of xerces-c (property C05): UTF-8, UTF-16 LE/BE, UCS-4 LE/BE, the
   single-byte code pages (as LAWS over their tables), the auto-sensing table of
   XMLRecognizer::basicEncodingProbe and the reconciliation done by XMLReader::setEncoding.

   Declarative layer (vocabulary of the Unicode Standard ch. 3 and XML 1.0 appendix F):
     IsScalar, Utf8Enc / U16 / Enc(K, c) by integer arithmetic, Legal8 / WF8 ("is the encoding
     of a scalar value", "is a concatenation of such"), WFK, DecAll, FRow (appendix F rows).
   Operational layer (shaped like the code):
     Step8 = the Table 3-7 automaton; Dec = the loop of XMLTranscoder::transcodeFrom with the
     stop-before-incomplete-tail contract (charsDone, bytesEaten); DecResults / EncResults = the SET of
     results one call may return; Probe = the decision list of basicEncodingProbe; SetEnc = the
     decision ladder of XMLReader::setEncoding; and the state machine below: a decoder SESSION
     (a byte stream handed to transcodeFrom in arbitrary pieces with arbitrary maxChars) and a
     SENSING task (probe, then reconcile with a declared name).
   TLC checks (Encodings.*.cfg) that every behaviour of the operational layer satisfies the
   declarative one: OutputIsDecodedPrefix, RejectOnlyIllFormed, DoneMeansAll, AutomatonIffDeclarative,
   SenseSound / SenseComplete / SenseUnambiguous, ReconcileReports; module EncodingsLaws (checked by the same
   configurations) pins Dec o Enc = id on the boundary code points of every encoding form.

   Deviations of the code that are modelled because the property still holds under them:
     - the intrinsic UTF-16 transcoder is transparent on 16-bit units (surrogate pairing is
       checked by the scanner, not by the transcoder): Raw16 below; the ICU UTF-16 converter
       and the document-level check use the surrogate machine WFK("utf16..").
     - a decoder may answer "need more bytes" (no exception, tail not eaten) for a sequence
       that is already ill-formed but shorter than its lead byte announces (E0 80 at the end
       of the block); it must reject it once the announced length is present.
     - after decoding some characters a decoder may return them and raise the exception on
       the next call (xerces does this after 32 characters for some errors).
*)
EXTENDS Integers, Sequences, FiniteSets, TLC

---------------------------------------------------------------------------
\* 1. Declarative layer

MaxCp == 1114111
IsSurr(c) == c >= 55296 /\ c <= 57343
IsHigh(u) == u >= 55296 /\ u <= 56319
IsLow(u) == u >= 56320 /\ u <= 57343
IsScalar(c) == c >= 0 /\ c <= MaxCp /\ ~IsSurr(c)
Min(a, b) == IF a < b THEN a ELSE b
From(s, i) == SubSeq(s, i, Len(s))          \* suffix starting at index i

Utf8Enc(c) ==
    IF c < 128 THEN <<c>>
    ELSE IF c < 2048 THEN <<192 + (c \div 64), 128 + (c % 64)>>
    ELSE IF c < 65536 THEN <<224 + (c \div 4096), 128 + ((c \div 64) % 64), 128 + (c % 64)>>
    ELSE <<240 + (c \div 262144), 128 + ((c \div 4096) % 64), 128 + ((c \div 64) % 64), 128 + (c % 64)>>

U16(c) == IF c < 65536 THEN <<c>>
          ELSE <<55296 + ((c - 65536) \div 1024), 56320 + ((c - 65536) % 1024)>>
PairVal(h, l) == 65536 + (h - 55296) * 1024 + (l - 56320)

UnitBytes(K, u) == IF K = "utf16le" THEN <<u % 256, u \div 256>> ELSE <<u \div 256, u % 256>>
Ucs4Bytes(K, c) == LET be == <<0, c \div 65536, (c \div 256) % 256, c % 256>>
                   IN IF K = "ucs4be" THEN be ELSE <<be[4], be[3], be[2], be[1]>>
Kinds == {"utf8", "utf16le", "utf16be", "ucs4le", "ucs4be"}
Enc(K, c) == CASE K = "utf8" -> Utf8Enc(c)
               [] K \in {"utf16le", "utf16be"} -> (LET u == U16(c) IN IF Len(u) = 1 THEN UnitBytes(K, u[1]) ELSE UnitBytes(K, u[1]) \o UnitBytes(K, u[2]))
               [] OTHER -> Ucs4Bytes(K, c)
RECURSIVE EncAll(_, _)
EncAll(K, cs) == IF cs = <<>> THEN <<>> ELSE Enc(K, Head(cs)) \o EncAll(K, From(cs, 2))
RECURSIVE U16All(_)
U16All(cs) == IF cs = <<>> THEN <<>> ELSE U16(Head(cs)) \o U16All(From(cs, 2))

\* the only candidate scalar value of a 1..4 byte string: plain bit extraction by length; whether the
\* string IS legal is decided by re-encoding (shortest form, markers, range and surrogates all follow)
Cand8(s) == CASE Len(s) = 1 -> s[1]
              [] Len(s) = 2 -> (s[1] % 32) * 64 + (s[2] % 64)
              [] Len(s) = 3 -> (s[1] % 16) * 4096 + (s[2] % 64) * 64 + (s[3] % 64)
              [] OTHER -> (s[1] % 8) * 262144 + (s[2] % 64) * 4096 + (s[3] % 64) * 64 + (s[4] % 64)
Legal8(s) == Len(s) \in 1..4 /\ \E c \in {Cand8(s)} : IsScalar(c) /\ Utf8Enc(c) = s
RECURSIVE WF8(_)
WF8(s) == s = <<>> \/ \E k \in 1..Min(4, Len(s)) : Legal8(SubSeq(s, 1, k)) /\ WF8(From(s, k + 1))

Unit(K, b, i) == IF K = "utf16le" THEN b[i] + 256 * b[i + 1] ELSE 256 * b[i] + b[i + 1]
Sig4(K, b, i) == IF K = "ucs4be" THEN <<b[i], b[i + 1], b[i + 2], b[i + 3]>> ELSE <<b[i + 3], b[i + 2], b[i + 1], b[i]>>
\* legal code unit sequence for ONE scalar value, and its value
LegalK(K, s) ==
    CASE K = "utf8" -> Legal8(s)
      [] K \in {"utf16le", "utf16be"} ->
            \/ Len(s) = 2 /\ ~IsSurr(Unit(K, s, 1))
            \/ Len(s) = 4 /\ IsHigh(Unit(K, s, 1)) /\ IsLow(Unit(K, s, 3))
      [] OTHER -> Len(s) = 4 /\ LET m == Sig4(K, s, 1) IN m[1] = 0 /\ m[2] <= 16 /\ ~IsSurr(m[3] * 256 + m[4] + m[2] * 65536)
ValK(K, s) ==
    CASE K = "utf8" -> Cand8(s)
      [] K \in {"utf16le", "utf16be"} -> IF Len(s) = 2 THEN Unit(K, s, 1) ELSE PairVal(Unit(K, s, 1), Unit(K, s, 3))
      [] OTHER -> LET m == Sig4(K, s, 1) IN m[2] * 65536 + m[3] * 256 + m[4]
RECURSIVE WFK(_, _)
WFK(K, s) == s = <<>> \/ \E k \in 1..Min(4, Len(s)) : LegalK(K, SubSeq(s, 1, k)) /\ WFK(K, From(s, k + 1))
RECURSIVE DecAll(_, _)     \* the scalar values of a well-formed string (declarative: first legal piece, then the rest)
DecAll(K, s) == IF s = <<>> THEN <<>>
                ELSE LET k == CHOOSE j \in 1..Min(4, Len(s)) : LegalK(K, SubSeq(s, 1, j)) /\ WFK(K, From(s, j + 1))
                     IN <<ValK(K, SubSeq(s, 1, k))>> \o DecAll(K, From(s, k + 1))
\* well-formed 16-bit unit strings (what the scanner must insist on for XMLCh data)
RECURSIVE WFUnits(_)
WFUnits(u) == \/ u = <<>>
              \/ ~IsSurr(u[1]) /\ WFUnits(From(u, 2))
              \/ Len(u) >= 2 /\ IsHigh(u[1]) /\ IsLow(u[2]) /\ WFUnits(From(u, 3))

---------------------------------------------------------------------------
\* 2. Operational layer: recognisers and the transcodeFrom / transcodeTo loops

In(b, lo, hi) == b >= lo /\ b <= hi
\* Unicode Table 3-7 (well-formed UTF-8 byte sequences) as an automaton; "S" = between characters
Step8(q, b) ==
    CASE q = "S" -> (IF b <= 127 THEN "S" ELSE IF In(b, 194, 223) THEN "C1" ELSE IF b = 224 THEN "E0"
                     ELSE IF In(b, 225, 236) \/ In(b, 238, 239) THEN "C2" ELSE IF b = 237 THEN "ED"
                     ELSE IF b = 240 THEN "F0" ELSE IF In(b, 241, 243) THEN "C3" ELSE IF b = 244 THEN "F4" ELSE "X")
      [] q = "C1" -> IF In(b, 128, 191) THEN "S" ELSE "X"
      [] q = "C2" -> IF In(b, 128, 191) THEN "C1" ELSE "X"
      [] q = "C3" -> IF In(b, 128, 191) THEN "C2" ELSE "X"
      [] q = "E0" -> IF In(b, 160, 191) THEN "C1" ELSE "X"
      [] q = "ED" -> IF In(b, 128, 159) THEN "C1" ELSE "X"
      [] q = "F0" -> IF In(b, 144, 191) THEN "C2" ELSE "X"
      [] q = "F4" -> IF In(b, 128, 143) THEN "C2" ELSE "X"
      [] OTHER -> "X"
RECURSIVE Run8(_, _, _)
Run8(q, s, i) == IF i > Len(s) THEN q ELSE IF q = "X" THEN "X" ELSE Run8(Step8(q, s[i]), s, i + 1)
Accepts8(s) == Run8("S", s, 1) = "S"
\* length announced by a UTF-8 lead byte (gUTFBytes + 1; 80..BF announce themselves only)
Nom8(b) == IF b < 192 THEN 1 ELSE IF b < 224 THEN 2 ELSE IF b < 240 THEN 3 ELSE IF b < 248 THEN 4 ELSE IF b < 252 THEN 5 ELSE 6

\* one character starting at b[i]: <<"ok", last index>> | <<"bad", index where it was seen>> | <<"trunc", Len(b)>>
RECURSIVE Walk8(_, _, _)
Walk8(b, i, q) == IF i > Len(b) THEN <<"trunc", i - 1>>
                  ELSE LET q2 == Step8(q, b[i]) IN
                       IF q2 = "X" THEN <<"bad", i>> ELSE IF q2 = "S" THEN <<"ok", i>> ELSE Walk8(b, i + 1, q2)
Walk(K, b, i) ==
    CASE K = "utf8" -> Walk8(b, i, "S")
      [] K \in {"utf16le", "utf16be"} ->
            IF i + 1 > Len(b) THEN <<"trunc", Len(b)>>
            ELSE LET u == Unit(K, b, i) IN
                 IF IsLow(u) THEN <<"bad", i + 1>>
                 ELSE IF ~IsHigh(u) THEN <<"ok", i + 1>>
                 ELSE IF i + 3 > Len(b) THEN <<"trunc", Len(b)>>
                 ELSE IF IsLow(Unit(K, b, i + 2)) THEN <<"ok", i + 3>> ELSE <<"bad", i + 3>>
      [] OTHER -> IF i + 3 > Len(b) THEN <<"trunc", Len(b)>>
                  ELSE IF LegalK(K, SubSeq(b, i, i + 3)) THEN <<"ok", i + 3>> ELSE <<"bad", i + 3>>
Nom(K, b, i) ==
    CASE K = "utf8" -> Nom8(b[i])
      [] K \in {"utf16le", "utf16be"} -> IF i + 1 <= Len(b) /\ IsHigh(Unit(K, b, i)) THEN 4 ELSE 2
      [] OTHER -> 4

\* the transcodeFrom loop: decode whole characters from b[i..] into 16-bit units while there is room
RECURSIVE Dec(_, _, _, _, _)
Dec(K, b, i, out, max) ==
    IF i > Len(b) THEN [st |-> "end", pos |-> i - 1, out |-> out]
    ELSE IF Len(out) >= max THEN [st |-> "full", pos |-> i - 1, out |-> out]
    ELSE LET w == Walk(K, b, i) IN
         IF w[1] = "ok"
         THEN LET u == U16(ValK(K, SubSeq(b, i, w[2]))) IN
              IF Len(out) + Len(u) > max THEN [st |-> "full", pos |-> i - 1, out |-> out]   \* never half a surrogate pair
              ELSE Dec(K, b, w[2] + 1, out \o u, max)
         ELSE [st |-> w[1], pos |-> i - 1, out |-> out]

\* Results one transcodeFrom call may give. svc = "x": intrinsic transcoder (stateless: what is not eaten is
\* offered again by the caller); svc = "icu": converter with internal state (may eat an incomplete tail: pend).
\* exc = TRUE: the call throws (out/eat are then meaningless and normalised to <<>>/0).
Res(out, eat, exc) == [out |-> out, eat |-> eat, exc |-> exc]
Thrown == Res(<<>>, 0, TRUE)
DecResults(K, svc, pend, in, max) ==
    LET b == pend \o in
        r == Dec(K, b, 1, <<>>, max)
        stop == Res(r.out, r.pos - Len(pend), FALSE)
        all == Res(r.out, Len(in), FALSE)
        leave == (IF r.pos >= Len(pend) THEN {stop} ELSE {}) \cup (IF svc = "icu" THEN {all} ELSE {})
    IN CASE r.st \in {"end", "full"} -> {stop}
         [] r.st = "trunc" -> leave
         [] OTHER -> {Thrown} \cup (IF Len(r.out) > 0 THEN {stop} ELSE {})
                              \cup (IF r.pos + Nom(K, b, r.pos + 1) > Len(b) THEN leave ELSE {})
\* the intrinsic UTF-16 transcoder: transparent on units (see header)
Raw16(K, in, max) == LET n == Min(Len(in) \div 2, max) IN Res([j \in 1..n |-> Unit(K, in, 2 * j - 1)], 2 * n, FALSE)

\* the transcodeTo loop over 16-bit units
RECURSIVE EncRun(_, _, _, _, _)
EncRun(K, u, i, out, max) ==
    IF i > Len(u) THEN [st |-> "end", pos |-> i - 1, out |-> out]
    ELSE LET one(c, n) == LET e == Enc(K, c) IN
                          IF Len(out) + Len(e) > max THEN [st |-> "full", pos |-> i - 1, out |-> out]
                          ELSE EncRun(K, u, i + n, out \o e, max)
         IN IF IsLow(u[i]) THEN [st |-> "bad", pos |-> i - 1, out |-> out]
            ELSE IF ~IsHigh(u[i]) THEN one(u[i], 1)
            ELSE IF i = Len(u) THEN [st |-> "trunc", pos |-> i - 1, out |-> out]
            ELSE IF IsLow(u[i + 1]) THEN one(PairVal(u[i], u[i + 1]), 2)
            ELSE [st |-> "bad", pos |-> i - 1, out |-> out]
EncResults(K, svc, in, max) ==
    LET r == EncRun(K, in, 1, <<>>, max)
        stop == Res(r.out, r.pos, FALSE)
    IN CASE r.st \in {"end", "full"} -> {stop}
         [] r.st = "trunc" -> IF svc = "x" THEN {stop} ELSE {stop, Res(r.out, Len(in), FALSE)}
         [] OTHER -> {Thrown} \cup (IF Len(r.out) > 0 THEN {stop} ELSE {})   \* ill-formed UTF-16 input must be reported, never encoded
Raw16To(K, in, max) == LET n == Min(Len(in), max \div 2) IN
    Res(IF n = 0 THEN <<>> ELSE [j \in 1..2 * n |-> UnitBytes(K, in[(j + 1) \div 2])[2 - (j % 2)]], n, FALSE)

---------------------------------------------------------------------------
\* 3. Auto-sensing (XML 1.0 appendix F) and reconciliation with the declared name

Pre(s, p) == Len(s) >= Len(p) /\ SubSeq(s, 1, Len(p)) = p
XmlDeclChars == <<60, 63, 120, 109, 108, 32>>              \* "<?xml "
EbcdicDecl == <<76, 111, 167, 148, 147, 64>>               \* the same six characters in the EBCDIC invariant set
AsciiPre == XmlDeclChars
Ucs4BPre == EncAll("ucs4be", XmlDeclChars)
Ucs4LPre == EncAll("ucs4le", XmlDeclChars)
U16BPre == EncAll("utf16be", XmlDeclChars)
U16LPre == EncAll("utf16le", XmlDeclChars)
\* XMLRecognizer::basicEncodingProbe, statement by statement
Probe(s) ==
    IF Pre(s, AsciiPre) THEN "UTF-8"
    ELSE IF Len(s) < 2 THEN "UTF-8"
    ELSE IF Len(s) < 4 THEN (IF s[1] = 254 /\ s[2] = 255 THEN "UTF-16BE" ELSE IF s[1] = 255 /\ s[2] = 254 THEN "UTF-16LE" ELSE "UTF-8")
    ELSE IF SubSeq(s, 1, 4) = <<0, 0, 254, 255>> THEN "UCS-4BE"
    ELSE IF SubSeq(s, 1, 4) = <<255, 254, 0, 0>> THEN "UCS-4LE"
    ELSE IF s[1] = 254 /\ s[2] = 255 THEN "UTF-16BE"
    ELSE IF s[1] = 255 /\ s[2] = 254 THEN "UTF-16LE"
    ELSE IF s[1] \in {0, 60} /\ Pre(s, Ucs4BPre) THEN "UCS-4BE"
    ELSE IF s[1] \in {0, 60} /\ Pre(s, Ucs4LPre) THEN "UCS-4LE"
    ELSE IF s[1] \in {0, 60} /\ Pre(s, U16BPre) THEN "UTF-16BE"
    ELSE IF s[1] \in {0, 60} /\ Pre(s, U16LPre) THEN "UTF-16LE"
    ELSE IF Len(s) > 6 /\ Pre(s, EbcdicDecl) THEN "EBCDIC"
    ELSE "UTF-8"
\* Appendix F.1 as a table over the first four octets: the set of rows a prefix matches
FRows(p) ==
    LET q == SubSeq(p, 1, 4) IN
    (IF q = <<0, 0, 254, 255>> THEN {"UCS-4BE"} ELSE {}) \cup (IF q = <<255, 254, 0, 0>> THEN {"UCS-4LE"} ELSE {})
    \cup (IF q = <<0, 0, 255, 254>> THEN {"UCS-4-2143"} ELSE {}) \cup (IF q = <<254, 255, 0, 0>> THEN {"UCS-4-3412"} ELSE {})
    \cup (IF q[1] = 254 /\ q[2] = 255 /\ ~(q[3] = 0 /\ q[4] = 0) THEN {"UTF-16BE"} ELSE {})
    \cup (IF q[1] = 255 /\ q[2] = 254 /\ ~(q[3] = 0 /\ q[4] = 0) THEN {"UTF-16LE"} ELSE {})
    \cup (IF q[1] = 239 /\ q[2] = 187 /\ q[3] = 191 THEN {"UTF-8"} ELSE {})
    \cup (IF q = <<0, 0, 0, 60>> THEN {"UCS-4BE"} ELSE {}) \cup (IF q = <<60, 0, 0, 0>> THEN {"UCS-4LE"} ELSE {})
    \cup (IF q = <<0, 0, 60, 0>> THEN {"UCS-4-2143"} ELSE {}) \cup (IF q = <<0, 60, 0, 0>> THEN {"UCS-4-3412"} ELSE {})
    \cup (IF q = <<0, 60, 0, 63>> THEN {"UTF-16BE"} ELSE {}) \cup (IF q = <<60, 0, 63, 0>> THEN {"UTF-16LE"} ELSE {})
    \cup (IF q = <<60, 63, 120, 109>> THEN {"UTF-8"} ELSE {})       \* any ASCII-compatible 8-bit encoding; the declaration decides
    \cup (IF q = <<76, 111, 167, 148>> THEN {"EBCDIC"} ELSE {})
Supported == {"UTF-8", "UTF-16LE", "UTF-16BE", "UCS-4LE", "UCS-4BE", "EBCDIC"}
\* family of the bytes / of a declared name
FamilyOfKind(K) == CASE K = "utf16le" -> "UTF-16LE" [] K = "utf16be" -> "UTF-16BE" [] K = "ucs4le" -> "UCS-4LE"
                     [] K = "ucs4be" -> "UCS-4BE" [] K = "ebcdic" -> "EBCDIC" [] OTHER -> "UTF-8"
\* declared names are classified: "g16" = UTF-16 without byte order, "g32" = UCS-4 without byte order,
\* an explicit family name, or "8bit" (UTF-8, US-ASCII, ISO-8859-x, windows-125x ...: ASCII-compatible)
DeclClasses == {"g16", "g32", "UTF-16LE", "UTF-16BE", "UCS-4LE", "UCS-4BE", "EBCDIC", "8bit"}
DeclMatches(fam, dc) == CASE dc = "g16" -> fam \in {"UTF-16LE", "UTF-16BE"}
                          [] dc = "g32" -> fam \in {"UCS-4LE", "UCS-4BE"}
                          [] dc = "8bit" -> fam = "UTF-8"
                          [] OTHER -> fam = dc
\* XMLReader::setEncoding as coded: <<outcome, family used from here on>>
SetEnc(detected, dc) ==
    CASE dc = "g16" -> IF detected \in {"UTF-16LE", "UTF-16BE"} THEN <<"keep", detected>> ELSE <<"contradictory", detected>>
      [] dc = "g32" -> IF detected \in {"UCS-4LE", "UCS-4BE"} THEN <<"keep", detected>> ELSE <<"contradictory", detected>>
      [] dc = "8bit" -> IF detected = "UTF-8" THEN <<"keep", "UTF-8">> ELSE <<"switch", "UTF-8">>
      [] OTHER -> IF detected = dc THEN <<"keep", detected>> ELSE <<"switch", dc>>
\* what the rest of an XML declaration ("?>") looks like in each family
DeclEndBytes(fam) == CASE fam = "UTF-16LE" -> <<63, 0, 62, 0>> [] fam = "UTF-16BE" -> <<0, 63, 0, 62>>
                       [] fam = "UCS-4LE" -> <<63, 0, 0, 0, 62, 0, 0, 0>> [] fam = "UCS-4BE" -> <<0, 0, 0, 63, 0, 0, 0, 62>>
                       [] fam = "EBCDIC" -> <<111, 110>> [] OTHER -> <<63, 62>>
\* A document whose bytes are in family `actual` is read after a switch to family `used`: the declaration can only
\* be completed if the bytes of "?>" in `actual` read as "?>" in `used`. Otherwise the scanner reports (fatal).
ReadsDeclEnd(actual, used) == Pre(DeclEndBytes(actual), DeclEndBytes(used)) /\ Len(DeclEndBytes(actual)) = Len(DeclEndBytes(used))

---------------------------------------------------------------------------
\* 4. The state machine TLC explores: decoder sessions and sensing tasks

CONSTANTS Reps,        \* representative byte values (two per byte class of Table 3-7 in the thorough config)
          RepsLong,    \* representatives used for streams of length MaxLen (subset of Reps)
          MaxLen,      \* longest stream
          SenseBytes,  \* byte values used for 4-octet sensing prefixes
          MaxChoices   \* maxChars values offered to the intrinsic decoders (64 = ample)
VARIABLES task, off, pend, got, st, last
vars == <<task, off, pend, got, st, last>>

SeqsOver(S, n) == UNION {[1..k -> S] : k \in 0..n}
\* canonical continuation that completes "<?xml " after a 4-octet prefix, per family
Completion(p) == {p} \cup {x \in {Ucs4BPre, Ucs4LPre, U16BPre, U16LPre, AsciiPre \o <<118>>, EbcdicDecl \o <<165>>} : Pre(x, p)}
                     \cup {p \o <<65, 0, 66>>}

NoTask == [t |-> "none", k |-> "", svc |-> "", s |-> <<>>]
Init == task = NoTask /\ off = 0 /\ pend = <<>> /\ got = <<>> /\ st = "run" /\ last = Res(<<>>, 0, FALSE)
\* Pick what this behaviour is about, in two steps (TLC generates initial states and the successors of ONE state
\* serially; two steps spread the enumeration of the streams over the workers).
Choose ==
    /\ task = NoTask
    /\ \/ \E b \in Reps, svc \in {"x", "icu"} : task' = [t |-> "pick", k |-> "utf8", svc |-> svc, s |-> <<b>>]
       \/ \E svc \in {"x", "icu"} : task' = [t |-> "dec", k |-> "utf8", svc |-> svc, s |-> <<>>]
       \/ \E s \in SeqsOver({0, 65, 216, 220, 255}, 4), K \in {"utf16le", "utf16be"} : task' = [t |-> "dec", k |-> K, svc |-> "icu", s |-> s]
       \/ \E s \in [1..4 -> {0, 1, 16, 17, 216, 220, 255}] \cup [1..2 -> {0, 65}], K \in {"ucs4le", "ucs4be"}, svc \in {"x", "icu"} :
              task' = [t |-> "dec", k |-> K, svc |-> svc, s |-> s]
       \/ \E b \in SenseBytes : task' = [t |-> "pick", k |-> "", svc |-> "", s |-> <<b>>]
       \/ \E det \in Supported : task' = [t |-> "recon", k |-> det, svc |-> "", s |-> <<>>]
    /\ UNCHANGED <<off, pend, got, st, last>>
Extend ==
    /\ task.t = "pick"
    /\ \/ /\ task.k = "utf8"
          /\ \E x \in SeqsOver(Reps, MaxLen - 2) \cup (IF task.s[1] \in RepsLong /\ task.svc = "x" THEN [1..MaxLen - 1 -> RepsLong] ELSE {}) :
                task' = [task EXCEPT !.t = "dec", !.s = task.s \o x]
       \/ /\ task.k = ""
          /\ \E x \in [1..3 -> SenseBytes] : task' = [task EXCEPT !.t = "sense", !.s = task.s \o x]
    /\ UNCHANGED <<off, pend, got, st, last>>

\* transcodeFrom(stream[off+1 .. off+n], maxChars = m): any allowed result
Call(n, m) ==
    /\ task.t = "dec" /\ st = "run" /\ off + n <= Len(task.s) /\ n >= 1
    /\ (task.svc = "icu" => m = 64)          \* converters with state are always given room (see c05.py: limits)
    /\ \E r \in DecResults(task.k, task.svc, pend, SubSeq(task.s, off + 1, off + n), m) :
          /\ last' = r
          /\ IF r.exc THEN st' = "exc" /\ UNCHANGED <<off, pend, got>>
             ELSE /\ st' = "run" /\ got' = got \o r.out /\ off' = off + r.eat
                  /\ pend' = LET b == pend \o SubSeq(task.s, off + 1, off + r.eat) IN
                             From(b, Dec(task.k, b, 1, <<>>, m).pos + 1)
    /\ UNCHANGED task
\* the caller has no more bytes: everything was offered (the last call saw the whole rest) and nothing more was eaten
Finish == /\ task.t = "dec" /\ st = "run"
          /\ \E x \in DecResults(task.k, task.svc, pend, From(task.s, off + 1), 64) : ~x.exc /\ x.eat = 0 /\ x.out = <<>>
          /\ st' = "done" /\ UNCHANGED <<task, off, pend, got, last>>
\* constructor of XMLReader: probe; then the scanner reads encoding="..." and calls setEncoding
Sense == /\ task.t = "sense" /\ st = "run"
         /\ \E c \in Completion(task.s) : got' = <<Probe(c)>> /\ pend' = c
         /\ st' = "probed" /\ UNCHANGED <<task, off, last>>
Reconcile(dc) == /\ task.t = "recon" /\ st = "run"
                 /\ got' = <<task.k, dc>> \o SetEnc(task.k, dc) /\ st' = "declared"
                 /\ UNCHANGED <<task, off, pend, last>>
Next == \/ Choose \/ Extend
        \/ \E n \in 1..MaxLen, m \in MaxChoices : Call(n, m)
        \/ Finish \/ Sense
        \/ \E dc \in DeclClasses : Reconcile(dc)
Spec == Init /\ [][Next]_vars

\* --- properties of decoder sessions (declarative layer) ---
Consumed == SubSeq(task.s, 1, off - Len(pend))          \* bytes whose characters have been delivered
Offered == SubSeq(task.s, 1, off)
\* a string that can still become well-formed: some continuation completes it
Tails8 == SeqsOver({128, 143, 144, 159, 160, 191}, 3)
TailsK(K) == IF K = "utf8" THEN Tails8 ELSE SeqsOver({0, 220}, 3)
Viable(K, s) == \E t \in TailsK(K) : WFK(K, s \o t)
\* everything delivered is exactly the decoding of a well-formed prefix of the stream: nothing illegal is ever decoded
OutputIsDecodedPrefix == task.t = "dec" => /\ off <= Len(task.s) /\ Len(pend) <= off
                                           /\ WFK(task.k, Consumed) /\ got = U16All(DecAll(task.k, Consumed))
\* an exception is raised only for a stream that is ill-formed (cannot be completed by any continuation)
RejectOnlyIllFormed == task.t = "dec" /\ st = "exc" => ~WFK(task.k, task.s)
\* the session ends normally only if the stream is well-formed and completely delivered, or what is left is a tail
\* shorter than its own announced length (the caller's end-of-input problem, property C02/C04)
DoneMeansAll == task.t = "dec" /\ st = "done" =>
                   \/ Consumed = task.s /\ WFK(task.k, task.s)
                   \/ LET rest == From(task.s, Len(Consumed) + 1) IN rest # <<>> /\ Len(rest) < Nom(task.k, rest, 1)
\* a well-formed stream is never rejected and an ill-formed complete sequence is never swallowed
WellFormedNeverRejected == task.t = "dec" /\ WFK(task.k, task.s) => st # "exc"
\* the Table 3-7 automaton accepts exactly the concatenations of encodings of scalar values
AutomatonIffDeclarative == task.t = "dec" /\ task.k = "utf8" /\ off = 0 => (Accepts8(task.s) <=> WF8(task.s))
\* the one-call decoder agrees with the declarative decoder on well-formed input
OneCall == task.t = "dec" /\ off = 0 /\ WFK(task.k, task.s) /\ task.s # <<>> =>
              Dec(task.k, task.s, 1, <<>>, 64) = [st |-> "end", pos |-> Len(task.s), out |-> U16All(DecAll(task.k, task.s))]

\* --- properties of sensing tasks ---
\* appendix F is unambiguous: no 4-octet prefix matches two rows
SenseUnambiguous == task.t = "sense" => Cardinality(FRows(task.s)) <= 1
\* sound: whatever the probe answers other than the default is what appendix F says for these four octets
\* (named deviation: FE FF 00 00, the unsupported UCS-4 order 3412, is read as UTF-16BE and dies on the NUL)
SenseSound == task.t = "sense" /\ st = "probed" /\ got[1] # "UTF-8" =>
                 \/ FRows(task.s) = {got[1]}
                 \/ task.s = <<254, 255, 0, 0>> /\ got[1] = "UTF-16BE" /\ FRows(task.s) = {"UCS-4-3412"}
\* total (always one of the supported families) and complete on documents that begin with a byte-order mark or
\* with "<?xml " in a supported family
CanonPre == {Ucs4BPre, Ucs4LPre, U16BPre, U16LPre, AsciiPre \o <<118>>, EbcdicDecl \o <<165>>}
HasBom(p) == (p[1] = 254 /\ p[2] = 255) \/ (p[1] = 255 /\ p[2] = 254) \/ p = <<0, 0, 254, 255>> \/ (p[1] = 239 /\ p[2] = 187 /\ p[3] = 191)
SenseComplete == task.t = "sense" /\ st = "probed" =>
                    /\ got[1] \in Supported
                    /\ \A f \in Supported : FRows(task.s) = {f} /\ (HasBom(task.s) \/ pend \in CanonPre) => got[1] = f
\* a declared name that contradicts the family of the bytes is reported: either setEncoding refuses it (warning
\* ContradictoryEncoding) or the reader switches to a decoder in which the declaration cannot even be completed
\* (fatal error from the scanner); a matching name is never refused
ReconcileReports == task.t = "recon" /\ st = "declared" =>
                       LET det == got[1] dc == got[2] outc == got[3] fam == got[4] IN
                       /\ (DeclMatches(det, dc) => outc = "keep" /\ fam = det)
                       /\ (~DeclMatches(det, dc) => outc = "contradictory" \/ (outc = "switch" /\ ~ReadsDeclEnd(det, fam)))

\* boundary code points used by the static laws (EncodingsLaws) and by the generator
BoundaryCps == {0, 1, 127, 128, 2047, 2048, 4095, 4096, 53247, 53248, 55295, 57344, 65533, 65535, 65536, 65537,
                262143, 262144, 1048575, 1048576, 1114110, 1114111}
=============================================================================
