---------------------------- MODULE ReaderBufOps ----------------------------
(* Pure layer of ReaderBuf: the steps of XMLReader's double buffer as operators over a reader record
   (indices and counters only) and the record-level statements of the declarative layer.
   Used by ReaderBuf (exhaustive model: adds the stream, the buffer contents and the partition into reads)
   and by ParserCallTrace (hook events of real parses, real constants, any number of readers). *)
EXTENDS Naturals, Integers
CONSTANTS KChar,        \* kCharBufSize
          KRaw,         \* kRawBufSize
          FixedEof      \* TRUE: reference behaviour; FALSE: as coded (DESIGN.md 6.1)

(* ---------- pure layer: the reader record ---------- *)

BytesLeft(b) == b.rawAvail - b.rawIdx
CharsLeft(b) == b.charAvail - b.charIdx

NewReader(lw, pe) ==
  [rawIdx |-> 0, rawAvail |-> 0, charIdx |-> 0, charAvail |-> 0, noMore |-> FALSE, pc |-> "new",
   needMore |-> FALSE, maxChars |-> 0, spare |-> 0, leftBefore |-> 0, lastRead |-> 0 - 1, lastDone |-> 0,
   lw |-> lw, pe |-> pe, trail |-> FALSE,
   read |-> 0, eaten |-> 0, skipped |-> 0, gained |-> 0, consumed |-> 0, err |-> FALSE]

(* refreshRawBuffer: left-over bytes move down, n bytes are read behind them *)
RawRefreshPre(b, n) == /\ b.pc \in {"new", "raw"}
                       /\ n >= 0 /\ n <= KRaw - BytesLeft(b)
RawRefreshOp(b, n) ==
  [b EXCEPT !.rawAvail = BytesLeft(b) + n, !.rawIdx = 0, !.read = @ + n, !.lastRead = n,
            !.pc = IF b.pc = "new" THEN "init" ELSE "afterraw"]

(* end of the constructor: BOM skipped (ri), UCS-4 BOM removed from the buffer (drop), XMLDecl line
   decoded by hand (ca characters, ri bytes), leading space of a parameter entity *)
InitPre(b, ri, drop, ca) == /\ b.pc = "init" /\ drop \in {0, 4} /\ drop <= b.rawAvail
                            /\ ri >= 0 /\ ri <= b.rawAvail - drop /\ ca >= 0 /\ ca <= KChar
                            /\ ca <= ri + (IF b.pe THEN 1 ELSE 0)
InitOp(b, ri, drop, ca) ==
  [b EXCEPT !.rawAvail = @ - drop, !.rawIdx = ri, !.charAvail = ca, !.charIdx = 0, !.eaten = ri,
            !.skipped = drop, !.gained = ca, !.pc = "idle"]

(* the scanner takes n characters *)
ConsumePre(b, n) == b.pc = "idle" /\ n >= 0 /\ n <= CharsLeft(b)
ConsumeOp(b, n) == [b EXCEPT !.charIdx = @ + n, !.consumed = @ + n]

(* refreshCharBuffer entry (after the fNoMore and the buffer-full returns) *)
BeginPre(b) == b.pc = "idle" /\ ~b.noMore /\ CharsLeft(b) < KChar
BeginOp(b) == [b EXCEPT !.spare = CharsLeft(b), !.maxChars = KChar - CharsLeft(b), !.needMore = FALSE,
                        !.lastDone = 0, !.pc = "xhead"]

(* xcodeMoreChars loop head:  if (needMode || bytesLeft == 0 || bytesLeft < fLowWaterMark) refreshRawBuffer() *)
XHeadPre(b) == b.pc = "xhead"
XHeadWantsRaw(b) == b.needMore \/ BytesLeft(b) = 0 \/ BytesLeft(b) < b.lw
XHeadOp(b) == IF XHeadWantsRaw(b) THEN [b EXCEPT !.pc = "raw", !.leftBefore = BytesLeft(b)]
                                  ELSE [b EXCEPT !.pc = "xcode"]

(* if (fRawBytesAvail == 0 || (needMode && bytesLeft == fRawBytesAvail - fRawBufIndex)) return 0; *)
AfterRawPre(b) == b.pc = "afterraw"
AfterRawReturns0(b) == b.rawAvail = 0 \/ (b.needMore /\ b.leftBefore = BytesLeft(b))
AfterRawOp(b) ==
  IF AfterRawReturns0(b)
  THEN IF FixedEof /\ BytesLeft(b) > 0 /\ b.lastRead = 0 /\ KRaw - b.leftBefore > 0     \* the stream answered 0 bytes to a real request
       THEN [b EXCEPT !.err = TRUE, !.pc = "dead"]                                       \* reference: input ended inside a sequence
       ELSE [b EXCEPT !.lastDone = 0, !.pc = "fin"]
  ELSE [b EXCEPT !.pc = "xcode"]

(* transcodeFrom(raw + rawIdx, bytesLeft, out, maxChars, eaten): done characters from eaten bytes *)
TranscodePre(b, done, eaten) == /\ b.pc = "xcode" /\ eaten >= 0 /\ eaten <= BytesLeft(b)
                                /\ done >= 0 /\ done <= b.maxChars
                                /\ (eaten = 0 => done = 0)
                                /\ (eaten > 0 => done >= 1)      \* the loop "while (!bytesEaten)" relies on it: bytes eaten without a
                                                                 \* character would be taken for the end of the entity
TranscodeOp(b, done, eaten) ==
  IF eaten = 0 THEN [b EXCEPT !.needMore = TRUE, !.pc = "xhead"]
  ELSE [b EXCEPT !.rawIdx = @ + eaten, !.eaten = @ + eaten, !.gained = @ + done, !.lastDone = done, !.pc = "fin"]

(* tail of refreshCharBuffer: add back the spare chars, trailing space of a PE, fNoMore *)
EndPre(b) == b.pc = "fin"
EndOp(b) ==
  LET ca == b.spare + b.lastDone
      sp == ca = 0 /\ b.pe /\ ~b.trail
      ca2 == IF sp THEN 1 ELSE ca
  IN [b EXCEPT !.charAvail = ca2, !.charIdx = 0, !.trail = (b.trail \/ sp), !.gained = IF sp THEN @ + 1 ELSE @,
               !.noMore = (ca2 = 0), !.pc = "idle"]

(* an exception leaves the refresh (transcoder format error, transcoder cannot be created, stream error) *)
AbortPre(b) == b.pc \in {"new", "init", "xhead", "raw", "afterraw", "xcode"}
AbortOp(b) == [b EXCEPT !.pc = "dead"]

(* ---------- declarative layer on the record (evaluated by TLC on the model AND on real traces) ---------- *)
IndexBoundsR(b) == /\ 0 <= b.rawIdx /\ b.rawIdx <= b.rawAvail /\ b.rawAvail <= KRaw
                   /\ 0 <= b.charIdx /\ b.charIdx <= b.charAvail /\ b.charAvail <= KChar
ByteConservationR(b) == b.eaten + b.skipped + BytesLeft(b) = b.read
CharConservationR(b) == b.pc = "idle" => b.consumed + CharsLeft(b) = b.gained
(* a refresh that gains nothing has seen the stream answer 0 bytes *)
ProgressR(b) == (b.pc = "fin" /\ b.lastDone = 0) => b.lastRead = 0
(* end of input is declared only when the stream answered 0 bytes and no undecoded byte is pending *)
EofSoundR(b) == b.noMore => (b.lastRead = 0 /\ BytesLeft(b) = 0)
ReaderInvR(b) == IndexBoundsR(b) /\ ByteConservationR(b) /\ CharConservationR(b) /\ ProgressR(b) /\ EofSoundR(b)

=============================================================================
