SPECIFICATION GSpec
CONSTANTS
  Reps = {0, 127, 128, 143, 144, 159, 160, 191, 192, 193, 194, 223, 224, 225, 236, 237, 238, 239, 240, 241, 243, 244, 245, 255}
  RepsLong = {65, 128, 144, 160, 193, 194, 224, 225, 237, 239, 240, 241, 244, 245}
  MaxLen = 4
  MaxChoices = {1, 64}
  SenseBytes = {0, 60, 63, 120, 109, 254, 255, 239, 187, 191, 76, 111, 167, 148, 65}
CHECK_DEADLOCK FALSE
