---------------------------- MODULE DtdValidity ----------------------------
(* Attribute, ID/IDREF, root-type and standalone validity constraints of XML 1.0 (sections 2.8, 2.9,
   3.3, 3.3.1, 3.3.2, 4.2.2) for a DTD given as a list of attribute declarations.

   A SCENARIO is  [sa, doctype, decls]  plus a DOCUMENT (elements in document order, the first is the
   root; all element types are declared ANY, so content is never at fault):
       decl     [el, att, ty, df, dv, en, ext]   element type, attribute name, declared type,
                default kind ("required" | "implied" | "fixed" | "default"), default value, token list of
                an enumerated / NOTATION type, declared in the EXTERNAL subset
       element  [el, atts]   atts = sequence of [att, v, pad]  (pad: written with extra white space)
   Values are sequences of TOKENS (small integers, classified by IsName / IsNmtoken); a value is
   written as its tokens separated by one space. Fixed prelude of every DTD: notation DeclNot and
   unparsed entity DeclEnt are declared (both named by token 1).

   DECLARATIVE layer:  Violated(S, doc) = the set of constraint KINDS the document violates, each
   defined by quantification over the whole document; Effective(S, doc) = attribute information items
   per element (specified + defaulted, normalised by declared type).
   OPERATIONAL layer (shape of the code: DTDValidator::preContentValidation after the DOCTYPE,
   scanStartTag / buildAttList + validateAttrValue per element in document order with the ID/IDREF
   table of the validation context, XMLScanner::checkIDRefs at the end):
       DtdEnd, StartElement(e), EndDocument  over  scen, st = [ids, refs, errs, eff, n], doc, phase
   The VCs "IDREF" and "Entity Name" have a lexical half (reported under kind AttrValue) and a reference
   half (kinds IDREF / Entity); the reference half is only claimed for lexically well-formed values.
   The standalone rule on normalisation applies to TOKENIZED types only (XML 1.0 5th ed. 2.9), not to
   enumerated ones, although both are normalised.
   TLC checks  Sound ==  phase = "end" => st.errs = Violated /\ st.eff = Effective. *)
EXTENDS Naturals, Sequences, FiniteSets, TLC

CONSTANTS Family,       \* "attr" | "idref" | "root" : which scenarios Init enumerates
          NTok,         \* tokens 1..NTok
          NTok2,        \* values of more than one token use tokens 1..NTok2 only
          MaxVal,       \* longest attribute value (tokens)
          MaxElems      \* longest document (elements)

Tokens == 1..NTok
(* token classes: 1, 2 are Names (hence Nmtokens); 3 is an Nmtoken that is not a Name; 4.. are neither *)
IsName(t) == t <= 2
IsNmtoken(t) == t <= 3
DeclNot == {1}          \* declared notations
DeclEnt == {1}          \* declared unparsed entities

Types == {"CDATA", "ID", "IDREF", "IDREFS", "NMTOKEN", "NMTOKENS", "ENTITY", "ENTITIES", "NOTATION", "ENUM"}
ListTypes == {"NOTATION", "ENUM"}                   \* EnumeratedType of production [57]
Tokenized == Types \ ({"CDATA"} \cup ListTypes)    \* TokenizedType of production [56]
NoVal == <<>>
Range(s) == {s[i] : i \in 1..Len(s)}

(* ---- what a value of a declared type must look like (3.3.1) *)
Lexical(ty, v) ==
  CASE ty = "CDATA" -> TRUE
    [] ty \in {"ID", "IDREF", "ENTITY"} -> Len(v) = 1 /\ IsName(v[1])
    [] ty \in {"IDREFS", "ENTITIES"} -> Len(v) >= 1 /\ \A t \in Range(v) : IsName(t)
    [] ty = "NMTOKEN" -> Len(v) = 1 /\ IsNmtoken(v[1])
    [] ty = "NMTOKENS" -> Len(v) >= 1 /\ \A t \in Range(v) : IsNmtoken(t)
    [] ty \in ListTypes -> TRUE
TypeOK(d, v) == Lexical(d.ty, v) /\ (d.ty \in ListTypes => Len(v) = 1 /\ v[1] \in Range(d.en))

HasDefault(d) == d.df \in {"fixed", "default"}
DeclsOf(S, el) == {d \in Range(S.decls) : d.el = el}
DeclOf(S, el, att) == {d \in DeclsOf(S, el) : d.att = att}       \* at most one (scenarios never redeclare)
Specified(e) == {e.atts[i].att : i \in 1..Len(e.atts)}
AttOf(e, a) == CHOOSE x \in Range(e.atts) : x.att = a

(* effective attributes of element e: <<att, value tokens, literal (white space kept), specified>> *)
EffOf(S, e) ==
  {<<x.att, x.v, x.pad /\ (DeclOf(S, e.el, x.att) = {} \/ \E d \in DeclOf(S, e.el, x.att) : d.ty = "CDATA"), TRUE>> : x \in Range(e.atts)}
  \cup {<<d.att, d.dv, FALSE, FALSE>> : d \in {d \in DeclsOf(S, e.el) : HasDefault(d) /\ d.att \notin Specified(e)}}
Effective(S, doc) == [i \in 1..Len(doc) |-> <<doc[i].el, EffOf(S, doc[i])>>]

(* typed effective values of the whole document: <<element index, decl, value>> *)
Typed(S, doc) ==
  UNION {{<<i, d, q[2]>> : q \in {q \in EffOf(S, doc[i]) : q[1] = d.att}} : i \in 1..Len(doc), d \in Range(S.decls)}
TypedOf(S, doc) == {x \in Typed(S, doc) : x[2].el = doc[x[1]].el}
AllIDs(S, doc) == {x[3][1] : x \in {x \in TypedOf(S, doc) : x[2].ty = "ID" /\ Lexical("ID", x[3])}}

(* ------------------------------------------------------------------ declarative layer *)
Violated(S, doc) ==
  LET T == TypedOf(S, doc) IN
  (IF doc # <<>> /\ doc[1].el # S.doctype THEN {"Root"} ELSE {})                                  \* VC Root Element Type
  \cup (IF \E i \in 1..Len(doc), d \in Range(S.decls) :
             d.el = doc[i].el /\ d.df = "required" /\ d.att \notin Specified(doc[i]) THEN {"Required"} ELSE {})   \* VC Required Attribute
  \cup (IF \E i \in 1..Len(doc), d \in Range(S.decls) :
             /\ d.el = doc[i].el /\ d.df = "fixed" /\ d.att \in Specified(doc[i])
             /\ LET x == AttOf(doc[i], d.att) IN x.v # d.dv \/ (d.ty = "CDATA" /\ x.pad) THEN {"Fixed"} ELSE {})    \* VC Fixed Attribute Default
  \cup (IF \E i \in 1..Len(doc) : \E a \in Specified(doc[i]) : DeclOf(S, doc[i].el, a) = {} THEN {"AttrDeclared"} ELSE {})  \* VC Attribute Value Type
  \cup (IF \/ \E d \in Range(S.decls) : HasDefault(d) /\ ~TypeOK(d, d.dv)                        \* VC Attribute Default Value Syntactically Correct
           \/ \E x \in T : ~TypeOK(x[2], x[3]) THEN {"AttrValue"} ELSE {}) \* VC ID / IDREF / Entity Name / Name Token / Enumeration / Notation Attributes
  \cup (IF \E x \in T, y \in T : /\ x[2].ty = "ID" /\ y[2].ty = "ID" /\ <<x[1], x[2].att>> # <<y[1], y[2].att>>
                                 /\ Lexical("ID", x[3]) /\ x[3] = y[3] THEN {"IDUnique"} ELSE {})   \* VC ID
  \cup (IF \E x \in T : x[2].ty \in {"IDREF", "IDREFS"} /\ Lexical(x[2].ty, x[3]) /\ \E t \in Range(x[3]) : t \notin AllIDs(S, doc)
        THEN {"IDREF"} ELSE {})                                                                    \* VC IDREF
  \cup (IF \E x \in T : x[2].ty \in {"ENTITY", "ENTITIES"} /\ Lexical(x[2].ty, x[3]) /\ \E t \in Range(x[3]) : t \notin DeclEnt
        THEN {"Entity"} ELSE {})                                                                   \* VC Entity Name
  \cup (IF \E d \in Range(S.decls) : d.ty = "ID" /\ HasDefault(d) THEN {"IDDefault"} ELSE {})     \* VC ID Attribute Default
  \cup (IF \E d1 \in Range(S.decls), d2 \in Range(S.decls) : d1.ty = "ID" /\ d2.ty = "ID" /\ d1.el = d2.el /\ d1.att # d2.att
        THEN {"OneID"} ELSE {})                                                                    \* VC One ID per Element Type
  \cup (IF \E d \in Range(S.decls) : d.ty = "NOTATION" /\ \E t \in Range(d.en) : t \notin DeclNot THEN {"NotationDecl"} ELSE {})  \* VC Notation Attributes
  \cup (IF \E d \in Range(S.decls) : d.ty \in ListTypes /\ Cardinality(Range(d.en)) < Len(d.en) THEN {"DupToken"} ELSE {})       \* VC No Duplicate Tokens
  \cup (IF S.sa /\ \E i \in 1..Len(doc), d \in Range(S.decls) :                                   \* VC Standalone Document Declaration
             /\ d.el = doc[i].el /\ d.ext
             /\ \/ HasDefault(d) /\ d.att \notin Specified(doc[i])
                \/ d.att \in Specified(doc[i]) /\ d.ty \in Tokenized /\ AttOf(doc[i], d.att).pad THEN {"Standalone"} ELSE {})

Valid(S, doc) == Violated(S, doc) = {}

(* ------------------------------------------------------------------ operational layer *)
St0 == [ids |-> {}, refs |-> {}, errs |-> {}, eff |-> <<>>]

(* kinds raised by the declarations alone (preContentValidation and the DTD scanner) *)
DeclKinds(S) ==
  UNION {   (IF d.ty = "ID" /\ HasDefault(d) THEN {"IDDefault"} ELSE {})
       \cup (IF d.ty = "ID" /\ \E d2 \in Range(S.decls) : d2.ty = "ID" /\ d2.el = d.el /\ d2.att # d.att THEN {"OneID"} ELSE {})
       \cup (IF d.ty = "NOTATION" /\ Range(d.en) \ DeclNot # {} THEN {"NotationDecl"} ELSE {})
       \cup (IF d.ty \in ListTypes /\ \E i \in 1..Len(d.en), j \in 1..Len(d.en) : i < j /\ d.en[i] = d.en[j] THEN {"DupToken"} ELSE {})
       \cup (IF HasDefault(d) /\ ~TypeOK(d, d.dv) THEN {"AttrValue"} ELSE {})
     : d \in Range(S.decls)}

(* validateAttrValue: one effective value v of declaration d; returns the updated [ids, refs, errs] part *)
CheckValue(st, d, v) ==
  LET bad == ~TypeOK(d, v)
      dupId == d.ty = "ID" /\ Lexical("ID", v) /\ v[1] \in st.ids
      newIds == IF d.ty = "ID" /\ Lexical("ID", v) THEN st.ids \cup {v[1]} ELSE st.ids
      newRefs == IF d.ty \in {"IDREF", "IDREFS"} /\ Lexical(d.ty, v) THEN st.refs \cup Range(v) ELSE st.refs
      ent == d.ty \in {"ENTITY", "ENTITIES"} /\ Lexical(d.ty, v) /\ \E t \in Range(v) : t \notin DeclEnt
  IN [st EXCEPT !.ids = newIds, !.refs = newRefs,
                !.errs = @ \cup (IF bad THEN {"AttrValue"} ELSE {}) \cup (IF dupId THEN {"IDUnique"} ELSE {}) \cup (IF ent THEN {"Entity"} ELSE {})]

(* the specified attributes, in the order written *)
RECURSIVE DoSpecified(_, _, _, _)
DoSpecified(S, st, el, atts) ==
  IF atts = <<>> THEN st
  ELSE LET x == Head(atts)
           ds == DeclOf(S, el, x.att)
       IN IF ds = {} THEN DoSpecified(S, [st EXCEPT !.errs = @ \cup {"AttrDeclared"}], el, Tail(atts))
          ELSE LET d == CHOOSE d \in ds : TRUE
                   st1 == CheckValue(st, d, x.v)
                   fx == d.df = "fixed" /\ (x.v # d.dv \/ (d.ty = "CDATA" /\ x.pad))
                   sa == S.sa /\ d.ext /\ d.ty \in Tokenized /\ x.pad
               IN DoSpecified(S, [st1 EXCEPT !.errs = @ \cup (IF fx THEN {"Fixed"} ELSE {}) \cup (IF sa THEN {"Standalone"} ELSE {})], el, Tail(atts))

(* the declared attributes that were not specified: #REQUIRED check, defaults faulted in (declaration order) *)
RECURSIVE DoMissing(_, _, _, _)
DoMissing(S, st, e, k) ==
  IF k > Len(S.decls) THEN st
  ELSE LET d == S.decls[k] IN
       IF d.el # e.el \/ d.att \in Specified(e) THEN DoMissing(S, st, e, k + 1)
       ELSE IF d.df = "required" THEN DoMissing(S, [st EXCEPT !.errs = @ \cup {"Required"}], e, k + 1)
       ELSE IF HasDefault(d)
            THEN LET st1 == CheckValue(st, d, d.dv)
                 IN DoMissing(S, [st1 EXCEPT !.errs = @ \cup (IF S.sa /\ d.ext THEN {"Standalone"} ELSE {})], e, k + 1)
       ELSE DoMissing(S, st, e, k + 1)

Step(S, st, e) ==
  LET st0 == IF Len(st.eff) = 0 /\ e.el # S.doctype THEN [st EXCEPT !.errs = @ \cup {"Root"}] ELSE st
      st1 == DoSpecified(S, st0, e.el, e.atts)
      st2 == DoMissing(S, st1, e, 1)
  IN [st2 EXCEPT !.eff = Append(@, <<e.el, EffOf(S, e)>>)]

Finish(S, st) == IF st.refs \subseteq st.ids THEN st ELSE [st EXCEPT !.errs = @ \cup {"IDREF"}]

RECURSIVE StepAll(_, _, _)
StepAll(S, st, doc) == IF doc = <<>> THEN st ELSE StepAll(S, Step(S, st, Head(doc)), Tail(doc))
Run(S, doc) == Finish(S, StepAll(S, [St0 EXCEPT !.errs = DeclKinds(S)], doc))

(* ------------------------------------------------------------------ scenario families *)
RECURSIVE SeqsUpTo(_, _)
SeqsUpTo(A, n) == IF n = 0 THEN {<<>>} ELSE SeqsUpTo(A, n - 1) \cup {Append(s, a) : s \in {s \in SeqsUpTo(A, n - 1) : Len(s) = n - 1}, a \in A}
Values == SeqsUpTo(Tokens, 1) \cup SeqsUpTo(1..NTok2, MaxVal)
EnumLists == {<<1>>, <<1, 2>>, <<1, 1>>}
Decl(el, att, ty, df, dv, en, ext) == [el |-> el, att |-> att, ty |-> ty, df |-> df, dv |-> dv, en |-> en, ext |-> ext]

AttrDecls(ext) ==
  {Decl(1, 1, ty, df, NoVal, en, ext) : ty \in Types \ ListTypes, df \in {"required", "implied"}, en \in {<<>>}}
  \cup {Decl(1, 1, ty, df, dv, en, ext) : ty \in Types \ ListTypes, df \in {"fixed", "default"}, dv \in Values, en \in {<<>>}}
  \cup {Decl(1, 1, ty, df, NoVal, en, ext) : ty \in ListTypes, df \in {"required", "implied"}, en \in EnumLists}
  \cup {Decl(1, 1, ty, df, dv, en, ext) : ty \in ListTypes, df \in {"fixed", "default"}, dv \in Values, en \in EnumLists}
Att(a, v, pad) == [att |-> a, v |-> v, pad |-> pad]

(* (standalone, external): the combinations that matter *)
AttrScenarios ==
  UNION {{[sa |-> m[1], doctype |-> 1, decls |-> <<d>>] : d \in AttrDecls(m[2])}
           : m \in {<<FALSE, FALSE>>, <<TRUE, TRUE>>, <<TRUE, FALSE>>, <<FALSE, TRUE>>}}
  \cup {[sa |-> FALSE, doctype |-> 1, decls |-> <<Decl(1, 1, "ID", "implied", NoVal, <<>>, FALSE), Decl(1, 2, ty, "implied", NoVal, <<>>, FALSE)>>]
          : ty \in {"ID", "IDREF"}}
AttrDocs == {<<[el |-> 1, atts |-> <<>>]>>}
            \cup {<<[el |-> 1, atts |-> <<Att(1, v, pad)>>]>> : v \in Values, pad \in BOOLEAN}
            \cup {<<[el |-> 1, atts |-> <<Att(2, <<1>>, FALSE)>>]>>, <<[el |-> 1, atts |-> <<Att(1, <<1>>, FALSE), Att(2, <<1>>, FALSE)>>]>>}

IdDecls(qdf) == <<Decl(1, 1, "ID", "implied", NoVal, <<>>, FALSE),
                  Decl(1, 2, "IDREF", qdf, IF qdf = "default" THEN <<1>> ELSE NoVal, <<>>, FALSE),
                  Decl(1, 3, "IDREFS", "implied", NoVal, <<>>, FALSE)>>
IdScenarios == {[sa |-> FALSE, doctype |-> 1, decls |-> IdDecls(qdf)] : qdf \in {"implied", "default"}}
IdElems == {[el |-> 1, atts |-> p \o r] :
              p \in {<<>>} \cup {<<Att(1, <<t>>, FALSE)>> : t \in {1, 2}},
              r \in {<<>>, <<Att(2, <<1>>, FALSE)>>, <<Att(2, <<2>>, FALSE)>>, <<Att(3, <<1, 2>>, FALSE)>>, <<Att(3, <<2, 2>>, TRUE)>>}}
IdDocs == SeqsUpTo(IdElems, MaxElems) \ {<<>>}

RootScenarios == {[sa |-> FALSE, doctype |-> t, decls |-> <<Decl(1, 1, "CDATA", "default", <<1>>, <<>>, FALSE)>>] : t \in {1, 2}}
RootDocs == {<<[el |-> t, atts |-> <<>>]>> : t \in {1, 2}} \cup {<<[el |-> 1, atts |-> <<>>], [el |-> 2, atts |-> <<>>]>>}

Scenarios == CASE Family = "attr" -> AttrScenarios
               [] Family = "idref" -> IdScenarios
               [] Family = "root" -> RootScenarios
Docs == CASE Family = "attr" -> AttrDocs [] Family = "idref" -> IdDocs [] Family = "root" -> RootDocs
ElemsOfFamily == UNION {Range(d) : d \in Docs}
Prefixes == UNION {{SubSeq(d, 1, k) : k \in 1..Len(d)} : d \in Docs}

(* ------------------------------------------------------------------ state machine *)
VARIABLES scen, st, doc, phase
vars == <<scen, st, doc, phase>>

Init == /\ scen \in Scenarios
        /\ st = St0
        /\ doc = <<>>
        /\ phase = "dtd"

DtdEnd == /\ phase = "dtd"
          /\ phase' = "content"
          /\ st' = [st EXCEPT !.errs = DeclKinds(scen)]
          /\ UNCHANGED <<scen, doc>>

StartElement(e) == /\ phase = "content"
                   /\ Append(doc, e) \in Prefixes
                   /\ st' = Step(scen, st, e)
                   /\ doc' = Append(doc, e)
                   /\ UNCHANGED <<scen, phase>>

EndDocument == /\ phase = "content"
               /\ doc \in Docs
               /\ st' = Finish(scen, st)
               /\ phase' = "end"
               /\ UNCHANGED <<scen, doc>>

Next == DtdEnd \/ (\E e \in ElemsOfFamily : StartElement(e)) \/ EndDocument
Spec == Init /\ [][Next]_vars

Sound == phase = "end" => /\ st.errs = Violated(scen, doc)
                          /\ st.eff = Effective(scen, doc)
                          /\ st = Run(scen, doc)
(* a failed ID/IDREF check can only be discovered at the end: before it, errs never contains "IDREF" *)
NoEarlyIdref == phase # "end" => "IDREF" \notin st.errs
=============================================================================
