SPECIFICATION Spec
CONSTANTS
  Family = "idref"
  NTok = 2
  NTok2 = 2
  MaxVal = 2
  MaxElems = 3
INVARIANT Sound
INVARIANT NoEarlyIdref
CHECK_DEADLOCK FALSE
