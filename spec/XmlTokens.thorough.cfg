SPECIFICATION Spec
CONSTANTS
  Profiles = {"structure", "prolog", "lexis", "attrs", "nsscope", "entities", "values"}
  Bounds <- ThoroughBounds
  MaxDepth = 3
INVARIANT TypeOK
INVARIANT Agree
INVARIANT AgreeNS
INVARIANT InfosetAgree
CHECK_DEADLOCK FALSE
