SPECIFICATION GSpec
CONSTANTS
  PrefixSeq <- BasePrefixes
  UriSeq <- BaseUris
  ElemPrefixSeq <- BasePrefixes
  AttrPrefixSeq <- BasePrefixes
  LocalSeq <- LocalsAB
  Versions = {"1.1"}
  MaxDepth = 3
  MaxElems = 3
  MaxDecls = 2
  MaxAttrs = 2
  BuildElems = 2
  BuildDecls = 2
  BuildPrefixSeq <- NoPrefix
  ProbeBudget = 3
  BigNs = {}
  BigAttrNs = {}
ACTION_CONSTRAINT EmitT
CHECK_DEADLOCK FALSE
