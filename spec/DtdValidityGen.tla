------------------------- MODULE DtdValidityGen -------------------------
(* Binder T (full path) for DtdValidity: one line per (scenario, group of documents)
        <<scenario, {<<document, violated kinds, effective attributes>> ...}>>
   with the OPERATIONAL result Run(scenario, document) (which DtdValidity.*.cfg proves equal to the
   declarative Violated / Effective). Documents of the idref family are grouped by their first element.
   NSHARDS / SHARD in the environment split the lines over several TLC processes. *)
EXTENDS DtdValidity, Json, IOUtils, SequencesExt
VARIABLE job
NShards == IF "NSHARDS" \in DOMAIN IOEnv THEN atoi(IOEnv.NSHARDS) ELSE 1
Shard == IF "SHARD" \in DOMAIN IOEnv THEN atoi(IOEnv.SHARD) ELSE 0
Key(d) == IF Family = "idref" THEN <<d[1]>> ELSE <<>>
Keys == {Key(d) : d \in Docs}
ScenSeq == SetToSeq(Scenarios)
Mine == {ScenSeq[i] : i \in {j \in 1..Len(ScenSeq) : j % NShards = Shard}}
GInit == /\ scen \in Mine
         /\ st = St0
         /\ doc = <<>>
         /\ phase = "dtd"
         /\ job \in Keys
GSpec == GInit /\ [][UNCHANGED <<vars, job>>]_<<vars, job>>
Res(d) == LET r == Run(scen, d) IN <<d, r.errs, r.eff>>
Emit == PrintT(ToJson(<<scen, {Res(d) : d \in {d \in Docs : Key(d) = job}}>>))
=============================================================================
