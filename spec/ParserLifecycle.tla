------------------------------ MODULE ParserLifecycle ------------------------------
(* Property C15: a parser's result is independent of its history; cached grammars are transparent.

   OPERATIONAL LAYER (shaped like the code).  One parser object:
     cfg      validation scheme, namespaces, cacheGrammarFromParse, useCachedGrammarInParse - with the coupling the
              parser classes implement (SAXParser::cacheGrammarFromParse(true) switches useCachedGrammarInParse on, and
              useCachedGrammarInParse(false) is ignored while caching);
     tr       the transient scanner state that IGXMLScanner/DGXMLScanner::scanReset must re-establish (element-stack depth,
              ID / IDREF tables of the validation context, fStandalone, fHasNoDTD, fValidate, the content of the working
              DTD grammar "[dtd]" - its entity and element declarations -, the undeclared-element pool, the entity
              expansion counter, the reader-stack depth, the error counter);
     seqId, run, issued   progressive scan: sequence id, the run in progress, the tokens handed to the application;
     bucket, fromPool, pool, locked   GrammarResolver bucket, grammars referenced from the pool, XMLGrammarPoolImpl
              registry (sets of grammar keys: "dtd" is the scratch grammar keyed "[dtd]", "A"/"B" are external DTDs keyed by
              system id), lock flag - with getGrammar's lookup order bucket -> fromPool -> pool iff useCached,
              putGrammar / orphanGrammar / cacheGrammars / resetCachedGrammar as coded;
     curDoc, curAdopted, owned, adopted, freed   AbstractDOMParser's document pool.
   Documents are token sequences (DocTab) over DTDs (GramTab) that share element, ID and entity names with different
   meanings; the scanner is a fold (ScanSeq) over the tokens that reads and writes tr exactly where the code does
   (IDs are recorded only when validating, an undeclared entity is fatal iff fStandalone or fHasNoDTD, ...).

   DECLARATIVE LAYER.
     OutcomeIsFunctionOfInputs   the outcome of every parse = Fresh(doc, cfg, k): the outcome of the same parse by a
                                 newly constructed parser (initial transient state, empty grammar stores)
     ResetEstablishesInit        ScanReset(tr, cfg) = InitTr(cfg) for every reachable tr
     DeclaredVerdict             for complete parses the verdict equals the verdict read off the document as a whole
                                 (sets of IDs / IDREFs / undeclared names), not token by token
     PoolFrozenWhileLocked       [][locked => pool' = pool]
     StaleTokenRejected          a token of an earlier sequence id is refused and nothing changes
     AdoptedIntact               no adopted document is ever freed or owned by the parser again
   Deviations of the pinned code from this specification (genuine defects, see known_findings.d/C15.json) are named by
   the hazard field of the expected record:  "abandoned" (a parse started while a progressive run was left open finds
   the old readers on the reader stack), "lockedScratch" (the scratch grammar "[dtd]" sits in a locked pool and is renamed in
   place), "loadScratch" (loadGrammar(.., toCache) fails when the pool already holds "[dtd]"), "dgScratch" (DGXMLScanner only: a grammar
   ends up owned by both the bucket and the pool).
   With the constant AsCoded = TRUE the first deviation is modelled as coded and TLC reports the violation of
   OutcomeIsFunctionOfInputs (ParserLifecycle.ascoded.cfg); Forget names reset lines left out of ScanReset (mutation
   of the specification: ParserLifecycle.forget.cfg must fail). *)
EXTENDS Naturals, Sequences, FiniteSets, TLC

CONSTANTS DocIds,        \* documents of DocTab used by this configuration
          Loadable,      \* grammars offered to loadGrammar, subset of {"A","B"}
          Vals,          \* validation schemes used: subset of {0 (never), 1 (always), 2 (auto)}
          MaxOps,        \* length of the operation histories
          MaxK,          \* handler exception at the k-th startElement, k in 1..MaxK (0 = none)
          Feats,         \* features SetFeature may change: subset of {"val","ns","cache","use"}
          AsCoded,       \* FALSE = specification; TRUE = stale readers survive an abandoned progressive run (pinned code)
          Forget,        \* reset lines omitted from ScanReset / "useguard" (specification mutants); {} in every real configuration
          Extra          \* TRUE: all operations; FALSE: only parse / setFeature / loadGrammar (directed configurations)

Tk(t, n, id, ref) == [t |-> t, n |-> n, id |-> id, ref |-> ref]
SE(n, id, ref) == Tk("se", n, id, ref)
EE == Tk("ee", "", "", "")
ER(n) == Tk("er", n, "", "")
BAD == Tk("bad", "", "", "")

\* DTD contents.  A and B declare the same names with different meanings; C has nested entities whose text is malformed.
GElems(g) == CASE g = "A" -> {"r", "a", "b"} [] g = "B" -> {"r", "a"} [] g = "C" -> {"r", "a", "b"} [] OTHER -> {}
GIdTyped(g) == g = "A"                     \* attributes id / ref have types ID / IDREF (CDATA in B)
GEnts(g) == CASE g = "A" -> {"e"} [] g = "B" -> {"f"} [] g = "C" -> {"e", "f"} [] OTHER -> {}
EntBody(g, n) == IF g = "C" /\ n = "e" THEN <<SE("a", "", ""), ER("f"), EE>>
                 ELSE IF g = "C" /\ n = "f" THEN <<SE("a", "", ""), SE("b", "", ""), BAD>>
                 ELSE <<>>                  \* plain text
GDefaults(g) == g = "A"                    \* <!ATTLIST a k CDATA "dA">: a defaulted attribute on element a

Doc(sa, dtd, g, body) == [sa |-> sa, dtd |-> dtd, g |-> g, body |-> body]
Body1 == <<SE("r", "", ""), SE("a", "x", ""), EE, SE("a", "", "x"), EE, ER("e"), EE>>
DocTab(d) ==
  CASE d = 1 -> Doc(FALSE, "int", "A", Body1)                                                   \* valid, ID x, entity e
    [] d = 2 -> Doc(FALSE, "int", "A", <<SE("r", "", ""), SE("a", "", "x"), EE, EE>>)            \* IDREF x dangles unless an ID leaks
    [] d = 3 -> Doc(FALSE, "ext", "B", <<SE("r", "", ""), SE("a", "x", ""), ER("e"), EE, EE>>)   \* e is declared by A only
    [] d = 4 -> Doc(TRUE, "int", "A", <<SE("r", "", ""), SE("a", "y", ""), EE, EE>>)             \* standalone="yes"
    [] d = 5 -> Doc(FALSE, "int", "A", <<SE("r", "", ""), SE("a", "x", ""), EE, SE("b", "", ""), SE("b", "", ""), BAD>>)
    [] d = 6 -> Doc(FALSE, "int", "C", <<SE("r", "", ""), ER("e"), EE>>)                         \* malformed at reader depth 3
    [] d = 7 -> Doc(FALSE, "none", "none", <<SE("r", "", ""), SE("a", "x", ""), EE, ER("e"), EE>>)
    [] d = 8 -> Doc(FALSE, "ext", "A", Body1)
    [] d = 9 -> Doc(FALSE, "ext", "B", <<SE("r", "", ""), SE("a", "x", ""), ER("f"), EE, EE>>)
    [] d = 10 -> Doc(FALSE, "ext", "A", <<SE("r", "", ""), SE("a", "", "q"), EE, SE("u", "", ""), EE, EE>>)
    [] OTHER -> Doc(FALSE, "none", "none", <<SE("a", "", ""), EE>>)                              \* 11, 12: schema documents, see below

\* Schema documents.  Both name schema SB for namespace urn:x (key "X") in xsi:schemaLocation; loadGrammar("X") loads the DIFFERENT schema
\* SA for the same key.  11 = <a/> is valid under both (the defaulted attribute differs: visible in the dump), 12 = <b>42</b> is valid
\* under SB only.  Which grammar a parse uses is GrammarResolver::getGrammar's lookup order:
\*     bucket  ->  grammars referenced from the pool, ONLY IF useCachedGrammarInParse  ->  pool, ONLY IF useCachedGrammarInParse
\* (the bucket is emptied by scanReset, so it never answers for "X" at the start of a parse).  "" = no cached grammar: SB is read inline.
SchemaDocs == {11, 12}
Lookup(key, c, st) ==
  IF key \in st.bucket THEN "bucket"
  ELSE IF (c.use \/ "useguard" \in Forget) /\ key \in st.fromPool THEN "SA"
  ELSE IF c.use /\ key \in st.pool THEN "SA"
  ELSE ""
SchemaOut(d, c, vis) == [how |-> "ok", nse |-> 1, verr |-> (c.val # 0 /\ d = 12 /\ vis = "SA")]
\* declaratively: the cached grammar is visible iff the feature is on and the pool holds the key - whatever was referenced earlier
Visible(key, c, p) == IF c.use /\ key \in p THEN "SA" ELSE ""

VARIABLES cfg, tr, seqId, run, issued, bucket, fromPool, pool, locked, curDoc, curAdopted, owned, adopted, freed, nextDoc,
          last, nops
stores == <<bucket, fromPool, pool, locked>>
docpool == <<curDoc, curAdopted, owned, adopted, freed, nextDoc>>
vars == <<cfg, tr, seqId, run, issued, stores, docpool, last, nops>>

InitCfg == [val |-> 0, ns |-> TRUE, cache |-> FALSE, use |-> FALSE, schema |-> FALSE]
InitTr(c) == [depth |-> 0, ids |-> {}, refs |-> {}, sa |-> FALSE, noDTD |-> TRUE, validate |-> (c.val = 1), g |-> "none", gext |-> FALSE,
              undecl |-> {}, exp |-> 0, rd |-> 0, errs |-> 0]
NoRun == [active |-> FALSE, tok |-> 0, doc |-> 0, rest |-> <<>>, out |-> [how |-> "ok", verr |-> FALSE, nse |-> 0], cfg |-> InitCfg]
Out0 == [how |-> "ok", verr |-> FALSE, nse |-> 0]
NoLast == [vis |-> "", hzdg |-> FALSE, op |-> <<"init">>, out |-> Out0, full |-> FALSE, ok |-> TRUE, rej |-> FALSE, done |-> FALSE, hz |-> "", doc |-> 0, k |-> 0, cfg |-> InitCfg]

\* --- scanReset, line by line (IGXMLScanner2.cpp: scanReset).  The reader stack is NOT touched by scanReset: it is the
\* ReaderMgrResetType janitor at the end of scanDocument / scanNext that empties it.
Keep(f, old, new) == IF f \in Forget THEN old ELSE new
ScanReset(t, c) ==
  [depth |-> Keep("depth", t.depth, 0),              \* fElemStack.reset(..)
   ids |-> Keep("ids", t.ids, {}),                   \* resetValidationContext()
   refs |-> Keep("ids", t.refs, {}),
   sa |-> Keep("sa", t.sa, FALSE),                   \* fStandalone = false
   noDTD |-> Keep("noDTD", t.noDTD, TRUE),           \* fHasNoDTD = true
   validate |-> (c.val = 1),                         \* fValidate = (fValScheme == Val_Always)
   g |-> Keep("g", t.g, "none"),                     \* fDTDGrammar->reset() or a new DTDGrammar
   gext |-> Keep("g", t.gext, FALSE),
   undecl |-> Keep("undecl", t.undecl, {}),          \* fDTDElemNonDeclPool->removeAll()
   exp |-> Keep("exp", t.exp, 0),                    \* fEntityExpansionCount = 0
   rd |-> t.rd,
   errs |-> Keep("errs", t.errs, 0)]                 \* fErrorCount = 0

\* --- the scanner as a fold over tokens.  s = [tr, out, cb, stop]
Fatal(s) == [s EXCEPT !.out.how = "fatal", !.stop = TRUE, !.tr.errs = @ + 1]
VErr(s, b) == IF b THEN [s EXCEPT !.out.verr = TRUE, !.tr.errs = @ + 1] ELSE s
TokStep(s, tk, k) ==
  LET t == s.tr  v == t.validate IN
  CASE tk.t = "se" ->
         LET undeclared == tk.n \notin GElems(t.g)
             typed == v /\ GIdTyped(t.g) /\ ~undeclared
             dup == typed /\ tk.id # "" /\ tk.id \in t.ids
             saDef == v /\ t.sa /\ t.gext /\ GDefaults(t.g) /\ tk.n = "a"      \* default from the external subset in a standalone document
             t1 == [t EXCEPT !.depth = @ + 1,
                             !.ids = IF typed /\ tk.id # "" THEN @ \cup {tk.id} ELSE @,
                             !.refs = IF typed /\ tk.ref # "" THEN @ \cup {tk.ref} ELSE @,
                             !.undecl = IF undeclared THEN @ \cup {tk.n} ELSE @]
             s1 == VErr([s EXCEPT !.tr = t1, !.out.nse = @ + 1, !.cb = @ + 1], (v /\ undeclared) \/ dup \/ saDef)
         IN IF k > 0 /\ s1.cb = k THEN [s1 EXCEPT !.out.how = "handler", !.stop = TRUE] ELSE s1
    [] tk.t = "ee" ->
         LET s1 == [s EXCEPT !.tr.depth = @ - 1] IN
         IF s1.tr.depth = 0 THEN VErr(s1, v /\ ~(t.refs \subseteq t.ids)) ELSE s1          \* checkIDRefs at the end of the root
    [] tk.t = "er" ->                       \* only reached for an entity the working grammar does not declare
         IF t.sa \/ t.noDTD THEN Fatal(s) ELSE VErr(s, v)
    [] OTHER -> Fatal(s)                    \* "bad": not well-formed here

RECURSIVE ScanSeq(_, _, _)
ScanSeq(s, toks, k) ==
  IF toks = <<>> \/ s.stop THEN s
  ELSE LET tk == Head(toks) IN
       IF tk.t = "er" /\ tk.n \in GEnts(s.tr.g)
       THEN LET s1 == [s EXCEPT !.tr.exp = @ + 1, !.tr.rd = @ + 1]                 \* pushReader
                s2 == ScanSeq(s1, EntBody(s.tr.g, tk.n), k)
                s3 == IF s2.stop THEN s2 ELSE [s2 EXCEPT !.tr.rd = @ - 1]          \* popReader at the end of the entity
            IN ScanSeq(s3, Tail(toks), k)
       ELSE ScanSeq(TokStep(s, tk, k), Tail(toks), k)

\* --- prolog: XMLDecl and DOCTYPE (scanDocTypeDecl), including the grammar-store traffic.
\* st = [bucket, fromPool, pool]; the scratch grammar lives in the pool iff sp.
UseCachedExt(c, d, st) == c.use /\ DocTab(d).dtd = "ext" /\ DocTab(d).g \in st.pool
ResetStores(c, st, lk) ==                      \* scanReset: cacheGrammarFromParse() empties the bucket; fetch or create "[dtd]"
  LET found == c.use /\ "dtd" \in st.pool IN
  IF found THEN [bucket |-> {}, fromPool |-> st.fromPool \cup {"dtd"}, pool |-> st.pool, sp |-> TRUE]
  ELSE IF c.cache /\ ~lk /\ "dtd" \notin st.pool
       THEN [bucket |-> {}, fromPool |-> st.fromPool, pool |-> st.pool \cup {"dtd"}, sp |-> TRUE]
       ELSE [bucket |-> {"dtd"}, fromPool |-> st.fromPool, pool |-> st.pool, sp |-> FALSE]
DoctypeStores(c, d, st, lk) ==
  LET K == DocTab(d).g IN
  IF DocTab(d).dtd # "ext" THEN st
  ELSE IF c.use /\ K \in st.pool THEN [st EXCEPT !.fromPool = @ \cup {K}]           \* cached grammar used, subset not read
  ELSE IF ~c.cache THEN st                                                           \* declarations go into the scratch grammar
  ELSE LET o == IF st.sp THEN (IF lk THEN st ELSE [st EXCEPT !.pool = @ \ {"dtd"}, !.fromPool = @ \ {"dtd"}])   \* orphanGrammar("[dtd]")
                 ELSE [st EXCEPT !.bucket = @ \ {"dtd"}]
       IN IF ~lk /\ K \notin o.pool THEN [o EXCEPT !.pool = @ \cup {K}] ELSE [o EXCEPT !.bucket = @ \cup {K}]   \* putGrammar under the system id
\* DGXMLScanner::scanReset always creates a new scratch grammar; when the pool already holds "[dtd]" the new one goes to the bucket and is
\* then ALSO cached under the system id (and the pooled "[dtd]" is orphaned and never deleted): hazard "dgScratch" (DGXMLScanner only)
DGScratchHazard(c, d, p) == DocTab(d).dtd = "ext" /\ c.cache /\ "dtd" \in p /\ DocTab(d).g \notin p
LockedScratchHazard(c, d, st, lk) == DocTab(d).dtd = "ext" /\ c.cache /\ lk /\ st.sp /\ ~(c.use /\ DocTab(d).g \in st.pool)

Prolog(t0, c, d) ==                          \* s after the prolog
  LET D == DocTab(d)
      t1 == [t0 EXCEPT !.rd = @ + 1, !.sa = IF D.sa THEN TRUE ELSE @]
      s1 == [tr |-> t1, out |-> Out0, cb |-> 0, stop |-> FALSE]
  IN CASE D.dtd = "none" -> s1
       [] D.dtd = "int" -> IF c.cache THEN Fatal(s1)                                 \* Val_CantHaveIntSS, reported as a fatal error
                           ELSE [s1 EXCEPT !.tr.g = D.g, !.tr.gext = FALSE, !.tr.validate = @ \/ c.val = 2]
       [] OTHER -> [s1 EXCEPT !.tr.g = D.g, !.tr.gext = TRUE, !.tr.noDTD = FALSE, !.tr.validate = @ \/ c.val = 2]

\* the outcome of parse(d) with handler exception at k by a newly constructed parser: the specification's F
Fresh(d, c, k) == ScanSeq(Prolog(ScanReset(InitTr(c), c), c, d), DocTab(d).body, k).out

\* --- verdict of a complete parse read off the whole document (declarative)
RECURSIVE Flat(_, _)
Flat(g, toks) == IF toks = <<>> THEN <<>>
                 ELSE LET tk == Head(toks) IN
                      IF tk.t = "er" /\ tk.n \in GEnts(g) THEN Flat(g, EntBody(g, tk.n)) \o Flat(g, Tail(toks))
                      ELSE <<tk>> \o Flat(g, Tail(toks))
DeclVerdict(d, c) ==
  LET D == DocTab(d)
      intRefused == D.dtd = "int" /\ c.cache
      g == IF D.dtd = "none" THEN "none" ELSE D.g
      fl == Flat(g, D.body)
      ix == {i \in 1..Len(fl) : fl[i].t = "bad" \/ (fl[i].t = "er" /\ (D.sa \/ D.dtd # "ext"))}     \* first point that is not well-formed
      cut == IF ix = {} THEN Len(fl) ELSE (CHOOSE i \in ix : \A j \in ix : i <= j) - 1
      seen == {i \in 1..cut : TRUE}
      v == (c.val = 1) \/ (c.val = 2 /\ D.dtd # "none")
      ses == {i \in seen : fl[i].t = "se"}
      decl(i) == fl[i].n \in GElems(g)
      idsOf == {fl[i].id : i \in {j \in ses : decl(j) /\ fl[j].id # ""}}
      refsOf == {fl[i].ref : i \in {j \in ses : decl(j) /\ fl[j].ref # ""}}
      dupId == \E i, j \in ses : i < j /\ decl(i) /\ decl(j) /\ fl[i].id # "" /\ fl[i].id = fl[j].id
      rootClosed == ix = {}
      invalid == \/ \E i \in ses : ~decl(i)
                 \/ GIdTyped(g) /\ dupId
                 \/ GIdTyped(g) /\ rootClosed /\ ~(refsOf \subseteq idsOf)
                 \/ \E i \in seen : fl[i].t = "er"                                    \* undeclared entity, validity constraint
                 \/ D.sa /\ D.dtd = "ext" /\ GDefaults(g) /\ \E i \in ses : fl[i].n = "a"
  IN IF intRefused THEN [fatal |-> TRUE, verr |-> FALSE]
     ELSE [fatal |-> ix # {}, verr |-> v /\ invalid]

\* ----------------------------------------------------------------------------------------------------------------------
Init == /\ cfg = InitCfg /\ tr = InitTr(InitCfg) /\ seqId = 0 /\ run = NoRun /\ issued = {}
        /\ bucket = {} /\ fromPool = {} /\ pool = {} /\ locked = FALSE
        /\ curDoc = 0 /\ curAdopted = FALSE /\ owned = {} /\ adopted = {} /\ freed = {} /\ nextDoc = 1
        /\ last = NoLast /\ nops = 0

St == [bucket |-> bucket, fromPool |-> fromPool, pool |-> pool]
SetStores(st) == bucket' = st.bucket /\ fromPool' = st.fromPool /\ pool' = st.pool
\* AbstractDOMParser::reset() (called from scanReset through resetDocument) followed by startDocument
NewDocument == /\ owned' = IF curDoc # 0 /\ ~curAdopted THEN owned \cup {curDoc} ELSE owned
               /\ curDoc' = nextDoc /\ nextDoc' = nextDoc + 1 /\ curAdopted' = FALSE /\ UNCHANGED <<adopted, freed>>
Idle == ~run.active

\* stale readers of an abandoned run (as coded: scanReset pushes the new reader on top of them and the prolog fails)
StaleReaders == AsCoded /\ run.active

Parse(d, k) ==
  LET t0 == ScanReset(tr, cfg)
      st0 == ResetStores(cfg, St, locked)
      xs == d \in SchemaDocs
      vis == IF xs THEN Lookup("X", cfg, st0) ELSE ""
      s == IF xs THEN [tr |-> [t0 EXCEPT !.rd = 1, !.validate = (cfg.val # 0)], out |-> SchemaOut(d, cfg, vis), cb |-> 1, stop |-> FALSE]
           ELSE ScanSeq(Prolog(t0, cfg, d), DocTab(d).body, k)
      st1 == IF xs THEN (IF vis = "SA" THEN [st0 EXCEPT !.fromPool = @ \cup {"X"}] ELSE st0)
             ELSE IF s.stop /\ s.out.nse = 0 /\ DocTab(d).dtd = "int" /\ cfg.cache THEN st0 ELSE DoctypeStores(cfg, d, st0, locked)
      out == IF StaleReaders THEN [how |-> "fatal", verr |-> FALSE, nse |-> 0] ELSE s.out
      hz == IF run.active THEN "abandoned" ELSE IF LockedScratchHazard(cfg, d, st0, locked) THEN "lockedScratch" ELSE ""
  IN /\ (xs => cfg.schema /\ cfg.ns /\ ~cfg.cache /\ k = 0)       \* schema documents: schema processing on, no caching from parse (not modelled)
     /\ seqId' = seqId + 1                                        \* fSequenceId++ : invalidates every earlier token
     /\ tr' = [s.tr EXCEPT !.rd = 0]                             \* ReaderMgrResetType janitor: ReaderMgr::reset on every exit path
     /\ run' = NoRun
     /\ SetStores(st1)
     /\ NewDocument
     /\ last' = [vis |-> vis, hzdg |-> DGScratchHazard(cfg, d, pool), op |-> <<"parse", d, k>>, out |-> out, full |-> TRUE, ok |-> TRUE, rej |-> FALSE, done |-> TRUE, hz |-> hz, doc |-> d, k |-> k, cfg |-> cfg]
     /\ UNCHANGED <<cfg, issued, locked>>

ParseFirst(d) ==
  LET t0 == ScanReset(tr, cfg)
      st0 == ResetStores(cfg, St, locked)
      s == Prolog(t0, cfg, d)
      st1 == IF s.stop THEN st0 ELSE DoctypeStores(cfg, d, st0, locked)
      ok == ~s.stop /\ ~StaleReaders
      hz == IF run.active THEN "abandoned" ELSE IF LockedScratchHazard(cfg, d, st0, locked) THEN "lockedScratch" ELSE ""
  IN /\ d \notin SchemaDocs
     /\ seqId' = seqId + 1
     /\ tr' = IF ok THEN s.tr ELSE [s.tr EXCEPT !.rd = 0]         \* the janitor is released only when the token is handed out
     /\ run' = IF ok THEN [active |-> TRUE, tok |-> seqId + 1, doc |-> d, rest |-> DocTab(d).body, out |-> s.out, cfg |-> cfg] ELSE NoRun
     /\ issued' = IF ok THEN issued \cup {seqId + 1} ELSE issued        \* the token is filled in only when scanFirst succeeds
     /\ SetStores(st1)
     /\ NewDocument
     /\ last' = [vis |-> "", hzdg |-> DGScratchHazard(cfg, d, pool), op |-> <<"pfirst", d, seqId + 1>>, out |-> IF StaleReaders THEN [how |-> "fatal", verr |-> FALSE, nse |-> 0] ELSE s.out,
                 full |-> FALSE, ok |-> ok, rej |-> FALSE, done |-> ~ok, hz |-> hz, doc |-> d, k |-> 0, cfg |-> cfg]
     /\ UNCHANGED <<cfg, locked>>

\* scanNext: one top-level token (with everything an entity reference expands to); all = 1: the application's usual
\* loop "while (parseNext(token));" to the end of the document
ParseNext(tok, all) ==
  /\ tok \in issued
  /\ IF tok # seqId
     THEN /\ last' = [vis |-> "", hzdg |-> FALSE, op |-> <<"pnext", tok, all>>, out |-> Out0, full |-> FALSE, ok |-> FALSE, rej |-> TRUE, done |-> FALSE, hz |-> "", doc |-> 0, k |-> 0, cfg |-> cfg]
          /\ UNCHANGED <<cfg, tr, seqId, run, issued, stores, docpool>>           \* isLegalToken fails: Scan_BadPScanToken, nothing touched
     ELSE /\ run.active /\ run.tok = tok                                            \* (calling scanNext after the end is not specified)
          /\ LET s0 == [tr |-> tr, out |-> run.out, cb |-> 0, stop |-> FALSE]
                 s == ScanSeq(s0, IF all = 1 THEN run.rest ELSE <<Head(run.rest)>>, 0)
                 fin == s.stop \/ all = 1 \/ Len(run.rest) = 1
             IN /\ tr' = IF fin THEN [s.tr EXCEPT !.rd = 0] ELSE s.tr
                /\ run' = IF fin THEN NoRun ELSE [run EXCEPT !.rest = Tail(@), !.out = s.out]
                /\ last' = [vis |-> "", hzdg |-> FALSE, op |-> <<"pnext", tok, all>>, out |-> s.out, full |-> fin, ok |-> ~fin, rej |-> FALSE, done |-> fin, hz |-> "",
                            doc |-> run.doc, k |-> 0, cfg |-> run.cfg]
          /\ UNCHANGED <<cfg, seqId, issued, stores, docpool>>

ParseReset(tok) ==
  /\ tok \in issued
  /\ IF tok # seqId
     THEN /\ last' = [vis |-> "", hzdg |-> FALSE, op |-> <<"preset", tok>>, out |-> Out0, full |-> FALSE, ok |-> FALSE, rej |-> TRUE, done |-> FALSE, hz |-> "", doc |-> 0, k |-> 0, cfg |-> cfg]
          /\ UNCHANGED <<cfg, tr, seqId, run, issued, stores, docpool>>
     ELSE /\ tr' = [tr EXCEPT !.rd = 0, !.errs = 0]                                \* fReaderMgr.reset(); fErrorCount = 0
          /\ seqId' = seqId + 1
          /\ run' = NoRun
          /\ owned' = IF curDoc # 0 /\ ~curAdopted THEN owned \cup {curDoc} ELSE owned     \* AbstractDOMParser::reset()
          /\ curDoc' = 0 /\ curAdopted' = FALSE
          /\ last' = [vis |-> "", hzdg |-> FALSE, op |-> <<"preset", tok>>, out |-> Out0, full |-> FALSE, ok |-> TRUE, rej |-> FALSE, done |-> FALSE, hz |-> "", doc |-> 0, k |-> 0, cfg |-> cfg]
          /\ UNCHANGED <<cfg, issued, stores, adopted, freed, nextDoc>>

Simple(op, c) == last' = [vis |-> "", hzdg |-> FALSE, op |-> op, out |-> Out0, full |-> FALSE, ok |-> TRUE, rej |-> FALSE, done |-> FALSE, hz |-> "", doc |-> 0, k |-> 0, cfg |-> c]

SetFeature(f, v) ==
  /\ Idle
  /\ cfg' = CASE f = "val" -> [cfg EXCEPT !.val = v]
              [] f = "ns" -> [cfg EXCEPT !.ns = (v = 1)]
              [] f = "schema" -> [cfg EXCEPT !.schema = (v = 1)]
              [] f = "cache" -> IF v = 1 THEN [cfg EXCEPT !.cache = TRUE, !.use = TRUE] ELSE [cfg EXCEPT !.cache = FALSE]
              [] OTHER -> IF v = 1 \/ ~cfg.cache THEN [cfg EXCEPT !.use = (v = 1)] ELSE cfg
  /\ cfg' # cfg
  /\ Simple(<<"set", f, v>>, cfg')
  /\ UNCHANGED <<tr, seqId, run, issued, stores, docpool>>

\* IGXMLScanner::loadGrammar / loadDTDGrammar: the grammar is parsed into the scratch grammar, renamed to its system id and,
\* with toCache, moved into the pool by cacheGrammars().  Ends with ReaderMgr::reset; the ID tables and the undeclared pool are cleared.
LoadGrammar(g, c) ==
  /\ Idle
  /\ bucket' = IF c = 1 /\ ~locked /\ g \notin pool THEN {} ELSE {g}
  /\ pool' = IF c = 1 /\ ~locked /\ g \notin pool THEN pool \cup {g} ELSE pool
  /\ fromPool' = fromPool
  /\ tr' = IF g = "X" THEN [tr EXCEPT !.sa = FALSE, !.noDTD = TRUE, !.errs = 0, !.rd = 0, !.validate = IF cfg.val = 2 THEN TRUE ELSE @]
           ELSE [tr EXCEPT !.ids = {}, !.refs = {}, !.undecl = {}, !.sa = FALSE, !.noDTD = TRUE, !.errs = 0, !.rd = 0, !.g = g, !.gext = TRUE,
                           !.validate = IF cfg.val = 2 THEN TRUE ELSE @]
  /\ last' = [vis |-> "", hzdg |-> FALSE, op |-> <<"load", g, c>>, out |-> Out0, full |-> FALSE, ok |-> TRUE, rej |-> FALSE, done |-> FALSE,
              hz |-> IF g # "X" /\ c = 1 /\ "dtd" \in pool THEN "loadScratch" ELSE "", doc |-> 0, k |-> 0, cfg |-> cfg]
  /\ UNCHANGED <<cfg, seqId, run, issued, locked, docpool>>

ResetCachedGrammarPool ==                       \* GrammarResolver::resetCachedGrammar: XMLGrammarPoolImpl::clear refuses when locked
  /\ Idle
  /\ pool' = IF locked THEN pool ELSE {}
  /\ fromPool' = {}
  /\ Simple(<<"resetpool">>, cfg)
  /\ UNCHANGED <<cfg, tr, seqId, run, issued, bucket, locked, docpool>>
LockPool == /\ Idle /\ ~locked /\ locked' = TRUE /\ Simple(<<"lock">>, cfg) /\ UNCHANGED <<cfg, tr, seqId, run, issued, bucket, fromPool, pool, docpool>>
UnlockPool == /\ Idle /\ locked /\ locked' = FALSE /\ Simple(<<"unlock">>, cfg) /\ UNCHANGED <<cfg, tr, seqId, run, issued, bucket, fromPool, pool, docpool>>

AdoptDocument ==
  /\ Idle /\ curDoc # 0 /\ ~curAdopted
  /\ curAdopted' = TRUE /\ adopted' = adopted \cup {curDoc}
  /\ Simple(<<"adopt">>, cfg)
  /\ UNCHANGED <<cfg, tr, seqId, run, issued, stores, curDoc, owned, freed, nextDoc>>
ResetDocumentPool ==                            \* AbstractDOMParser::resetPool
  /\ Idle
  /\ freed' = freed \cup owned \cup (IF curDoc # 0 /\ ~curAdopted THEN {curDoc} ELSE {})
  /\ owned' = {} /\ curDoc' = 0
  /\ Simple(<<"resetdocs">>, cfg)
  /\ UNCHANGED <<cfg, tr, seqId, run, issued, stores, curAdopted, adopted, nextDoc>>

FeatVals(f) == IF f = "val" THEN Vals ELSE {0, 1}
Cnt == nops < MaxOps /\ nops' = nops + 1
DoParse(d, k) == Cnt /\ Parse(d, k)
DoParseFirst(d) == Cnt /\ ParseFirst(d)
DoParseNext(t, all) == Cnt /\ ParseNext(t, all)
DoParseReset(t) == Cnt /\ ParseReset(t)
DoSetFeature(f, v) == Cnt /\ SetFeature(f, v)
DoLoadGrammar(g, c) == Cnt /\ LoadGrammar(g, c)
DoResetCachedGrammarPool == Cnt /\ ResetCachedGrammarPool
DoLockPool == Cnt /\ LockPool
DoUnlockPool == Cnt /\ UnlockPool
DoAdoptDocument == Cnt /\ AdoptDocument
DoResetDocumentPool == Cnt /\ ResetDocumentPool
Next == \/ \E d \in DocIds, k \in 0..MaxK : DoParse(d, k)
        \/ Extra /\ \E d \in DocIds : DoParseFirst(d)
        \/ \E t \in issued, all \in {0, 1} : DoParseNext(t, all)
        \/ \E t \in issued : DoParseReset(t)
        \/ \E f \in Feats : \E v \in FeatVals(f) : DoSetFeature(f, v)
        \/ \E g \in Loadable, c \in {0, 1} : DoLoadGrammar(g, c)
        \/ Extra /\ (DoResetCachedGrammarPool \/ DoLockPool \/ DoUnlockPool \/ DoAdoptDocument \/ DoResetDocumentPool)
Spec == Init /\ [][Next]_vars

\* ----------------------------------------------------------------------------------------------------------------------
\* the listed property
\* F(doc, cfg, visible grammars)
F(d, c, k, p) == IF d \in SchemaDocs THEN SchemaOut(d, c, Visible("X", c, p)) ELSE Fresh(d, c, k)
OutcomeIsFunctionOfInputs == last.full => last.out = F(last.doc, last.cfg, last.k, pool)
DeclaredVerdict == (last.full /\ last.k = 0 /\ last.doc \notin SchemaDocs) =>
                      LET dv == DeclVerdict(last.doc, last.cfg) IN (last.out.how = "fatal") = dv.fatal /\ last.out.verr = dv.verr
ResetEstablishesInit == ScanReset(tr, cfg) = [InitTr(cfg) EXCEPT !.rd = tr.rd]
ReaderStackEmptyWhenIdle == ~run.active => tr.rd = 0
AdoptedIntact == adopted \cap freed = {} /\ adopted \cap owned = {} /\ owned \cap freed = {}
StaleTokenRejected == (last.op[1] \in {"pnext", "preset"} /\ last.rej) => last.op[2] # seqId
ReferencedAreCached == fromPool \subseteq pool          \* every grammar referenced from the pool is still in the pool
PoolFrozenWhileLocked == [][locked => pool' = pool]_vars
StaleChangesNothing == [][last'.rej => UNCHANGED <<cfg, tr, seqId, run, issued, stores, docpool>>]_vars
CacheImpliesUse == cfg.cache => cfg.use
TypeOK == /\ tr.depth \in 0..8 /\ tr.rd \in 0..(MaxOps + 3) /\ seqId \in 0..MaxOps /\ pool \subseteq {"dtd", "A", "B", "X"} /\ bucket \subseteq {"dtd", "A", "B", "X"}

=============================================================================
