SPECIFICATION TSpec
CONSTANTS
  Blocks = {}
  Objs = {1, 2, 3, 4, 5, 6}
  MaxOps = 100000
  PMgrs = {"p1", "p2", "p3"}
  Docs = {}
  MaxK = 0
  Apis = {}
INVARIANT ObjectScopedNoLeak
INVARIANT BalancedInitTerm
INVARIANT GlobalOnlyWhileInitialised
POSTCONDITION Accepted
CHECK_DEADLOCK FALSE
