SPECIFICATION Spec
CONSTANTS
  Profiles = {"structure", "prolog", "lexis", "attrs", "nsscope", "entities", "values"}
  Bounds <- SmallBounds
  MaxDepth = 2
INVARIANT TypeOK
INVARIANT Agree
INVARIANT AgreeNS
INVARIANT InfosetAgree
ACTION_CONSTRAINT EmitT
CHECK_DEADLOCK FALSE
