-------------------------- MODULE EntityExpansion --------------------------
(* General-entity expansion over the reader stack (property C19, second half), shaped like
   IG/DGXMLScanner::scanEntityRef + ReaderMgr::pushReaderAdoptEntity / popReader:

     ScanText            a character of the current reader is delivered
     ScanEntityRef(i)    &e_i; is read from the current reader; pushReader refuses the entity when it is
                         already on the reader STACK - the CURRENT reader is not compared (as coded: "we don't
                         check the entity at the top of the stack"), so a self reference is reported one level
                         later; a refused push is the fatal error RecursiveEntity
     CountExpansion      with a SecurityManager: ++count > limit is the fatal error EntityExpansionLimitExceeded,
                         otherwise the start of the entity reference is reported (startEntityReference)
                         (both branches of scanEntityRef - internal and external parsed entity - push, check and count
                         alike; `ext` says which entities are external: the binder stores their replacement text in files)
     EndOfEntity         the current reader is exhausted and popped
     EndOfDocument

   Declarative layer (XML 1.0 4.1 "No Recursion", the SecurityManager contract of the property):
     Cyclic, Needed (number of references a full expansion takes), FullText, and
     ExpansionBound, OverLimitRejected, WithinLimitUnaffected, RecursionReported, NoFalseRecursion, DepthBounded.
   `steps` increases with every action, so exhaustive termination of TLC shows that no behaviour is infinite.
*)
EXTENDS Naturals, Integers, Sequences, FiniteSets, TLC

CONSTANTS NEnt,       \* entities e1..eNEnt
          MaxVal,     \* references per entity value (each value starts with one character of text)
          MaxValLast, \* references in the value of the last entity (keeps the quick tier small)
          MaxDoc,     \* references in the document content
          Limits,     \* entity expansion limits; NoSM (99) = no SecurityManager installed
          ExtSets,    \* which entities are EXTERNAL parsed entities (a set of subsets of 1..NEnt); the others are internal
          Sites, ScnSet, ApiSet   \* where the binder places the references / which scanners and APIs it runs (same behaviour)

NoSM == 99
Ents == 1..NEnt
RefSeqs(n) == UNION {[1..m -> Ents] : m \in 0..n}
Values(n) == {<<0>> \o r : r \in RefSeqs(n)}                \* item 0 = one character of text, i > 0 = &e_i;
DefSets == {d \in [Ents -> Values(MaxVal)] : d[NEnt] \in Values(MaxValLast)}
Docs == RefSeqs(MaxDoc) \ {<< >>}

VARIABLES defs, doc, lim, ext, stack, phase, count, started, text, verdict, steps
vars == <<defs, doc, lim, ext, stack, phase, count, started, text, verdict, steps>>

Init == /\ defs \in DefSets /\ doc \in Docs /\ lim \in Limits /\ ext \in ExtSets
        /\ stack = << [ent |-> 0, pc |-> 1] >>        \* the document entity
        /\ phase = "scan" /\ count = 0 /\ started = 0 /\ text = << >> /\ verdict = "run" /\ steps = 0

Top == stack[Len(stack)]
ItemsOf(e) == IF e = 0 THEN doc ELSE defs[e]
CurItems == ItemsOf(Top.ent)
Step == steps' = steps + 1
Consume == [stack EXCEPT ![Len(stack)].pc = @ + 1]
Scanning == verdict = "run" /\ phase = "scan"

ScanText == /\ Scanning /\ Top.pc <= Len(CurItems) /\ CurItems[Top.pc] = 0
            /\ text' = Append(text, Top.ent)
            /\ stack' = Consume
            /\ Step /\ UNCHANGED <<defs, doc, lim, ext, phase, count, started, verdict>>

\* entities of the readers BELOW the current one (fReaderStack; fCurReaderData is not looked at)
OnStackBelow == {stack[j].ent : j \in 1..(Len(stack) - 1)}

ScanEntityRef == /\ Scanning /\ Top.pc <= Len(CurItems) /\ CurItems[Top.pc] > 0
                 /\ LET i == CurItems[Top.pc] IN
                    IF i \in OnStackBelow
                    THEN /\ verdict' = "recursion" /\ stack' = Consume /\ phase' = phase
                    ELSE /\ stack' = Append(Consume, [ent |-> i, pc |-> 1]) /\ phase' = "pushed" /\ verdict' = verdict
                 /\ Step /\ UNCHANGED <<defs, doc, lim, ext, count, started, text>>

CountExpansion == /\ verdict = "run" /\ phase = "pushed"
                  /\ IF lim # NoSM /\ count + 1 > lim
                     THEN verdict' = "limit" /\ started' = started /\ count' = count + 1
                     ELSE verdict' = verdict /\ started' = started + 1 /\ count' = IF lim # NoSM THEN count + 1 ELSE count
                  /\ phase' = "scan"
                  /\ Step /\ UNCHANGED <<defs, doc, lim, ext, stack, text>>

EndOfEntity == /\ Scanning /\ Top.pc > Len(CurItems) /\ Len(stack) > 1
               /\ stack' = SubSeq(stack, 1, Len(stack) - 1)
               /\ Step /\ UNCHANGED <<defs, doc, lim, ext, phase, count, started, text, verdict>>

EndOfDocument == /\ Scanning /\ Top.pc > Len(CurItems) /\ Len(stack) = 1
                 /\ verdict' = "none"
                 /\ Step /\ UNCHANGED <<defs, doc, lim, ext, stack, phase, count, started, text>>

Next == ScanText \/ ScanEntityRef \/ CountExpansion \/ EndOfEntity \/ EndOfDocument
Spec == Init /\ [][Next]_vars

---------------------------------------------------------------------------
\* declarative layer

RefsIn(s) == {s[i] : i \in 1..Len(s)} \ {0}
RECURSIVE ReachFrom(_, _)
ReachFrom(S, n) == IF n = 0 THEN S ELSE ReachFrom(S \cup UNION {RefsIn(defs[e]) : e \in S}, n - 1)
Reachable == ReachFrom(RefsIn(doc), NEnt)                              \* entities a full expansion of the document touches
OnCycle(e) == e \in ReachFrom(RefsIn(defs[e]), NEnt)
Cyclic == \E e \in Reachable : OnCycle(e)                              \* directly or indirectly self-referential

RECURSIVE NeededSeq(_, _), FullSeq(_, _, _)
NeededSeq(s, fuel) == IF s = << >> \/ fuel = 0 THEN 0
                      ELSE (IF Head(s) = 0 THEN 0 ELSE 1 + NeededSeq(defs[Head(s)], fuel - 1)) + NeededSeq(Tail(s), fuel)
Needed == NeededSeq(doc, NEnt + 1)                                     \* references a full expansion takes (acyclic definitions)
FullSeq(s, owner, fuel) == IF s = << >> \/ fuel = 0 THEN << >>
                           ELSE (IF Head(s) = 0 THEN <<owner>> ELSE FullSeq(defs[Head(s)], Head(s), fuel - 1)) \o FullSeq(Tail(s), owner, fuel)
FullText == FullSeq(doc, 0, NEnt + 1)

UsesExternal == Reachable \cap ext # {}
\* XML 1.0 WFC "No External Entity References": attribute values cannot refer to external entities, so a document
\* that reaches an external entity is meaningful in content only
SitesFor(S) == IF UsesExternal THEN S \cap {"content"} ELSE S
Done == verdict # "run"
\* at most N expansions precede the fatal error
ExpansionBound == lim # NoSM => started <= lim /\ count <= lim + 1
OverLimitRejected == (Done /\ ~Cyclic /\ lim # NoSM /\ Needed > lim) => (verdict = "limit" /\ started = lim)
\* documents needing <= N are unaffected
WithinLimitUnaffected == (Done /\ ~Cyclic /\ (lim = NoSM \/ Needed <= lim)) => (verdict = "none" /\ started = Needed /\ text = FullText)
\* cycles of every length are reported, never expanded without end
RecursionReported == (Done /\ Cyclic) => verdict \in {"recursion", "limit"}
NoFalseRecursion == verdict = "recursion" => Cyclic
DepthBounded == Len(stack) <= NEnt + 2
TypeOK == verdict \in {"run", "none", "limit", "recursion"} /\ phase \in {"scan", "pushed"}
=============================================================================
