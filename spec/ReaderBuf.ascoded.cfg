\* negative configuration: the reader AS CODED (DESIGN.md 6.1) on streams that end inside a multi-byte sequence.
\* TLC must report a violation of EofSound (the check fails if it does not).
SPECIFICATION Spec
CONSTANTS
  KChar = 3
  KRaw = 4
  MaxLen = 2
  Widths = {1, 3}
  LowWaters = {0}
  AllowTrunc = TRUE
  FixedEof = FALSE
  MaxWant = 1
INVARIANT EofSound
CHECK_DEADLOCK FALSE
