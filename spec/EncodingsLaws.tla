---------------------------- MODULE EncodingsLaws ----------------------------
(* Static laws of module Encodings, evaluated by TLC when the exhaustive configurations are checked
   (kept out of Encodings itself so that the trace and generator runs do not re-evaluate them). *)
EXTENDS Encodings
ASSUME \A c \in BoundaryCps : IsScalar(c)
ASSUME \A K \in Kinds, c \in BoundaryCps : LegalK(K, Enc(K, c)) /\ ValK(K, Enc(K, c)) = c
ASSUME \A K \in Kinds, c \in BoundaryCps, d \in {65, 233, 65536} :
           LET s == Enc(K, c) \o Enc(K, d) IN
           /\ WFK(K, s) /\ DecAll(K, s) = <<c, d>>
           /\ Dec(K, s, 1, <<>>, 64).out = U16(c) \o U16(d)
           /\ EncRun(K, U16(c) \o U16(d), 1, <<>>, 64).out = s
ASSUME \A c \in {55296, 56319, 56320, 57343, 1114112} : ~Legal8(Utf8Enc(c)) /\ ~LegalK("ucs4le", Ucs4Bytes("ucs4le", c)) /\ ~LegalK("ucs4be", Ucs4Bytes("ucs4be", c))
ASSUME \A K \in {"utf16le", "utf16be"}, c \in {55296, 56319, 56320, 57343} : ~LegalK(K, UnitBytes(K, c))
ASSUME \A c \in BoundaryCps : WFUnits(U16(c)) /\ ~WFUnits(<<56320>> \o U16(c)) /\ ~WFUnits(U16(c) \o <<55296>>)
=============================================================================
