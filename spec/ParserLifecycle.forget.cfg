SPECIFICATION Spec
CONSTANTS
  DocIds = {1, 2, 3, 4, 5, 8}
  Loadable = {"A"}
  Vals = {0, 1}
  MaxOps = 2
  MaxK = 2
  Feats = {"val", "cache", "use"}
  AsCoded = FALSE
  Extra = TRUE
  Forget = {"ids"}
INVARIANT TypeOK
INVARIANT OutcomeIsFunctionOfInputs
INVARIANT DeclaredVerdict
INVARIANT ResetEstablishesInit
INVARIANT ReaderStackEmptyWhenIdle
INVARIANT AdoptedIntact
INVARIANT StaleTokenRejected
INVARIANT ReferencedAreCached
INVARIANT CacheImpliesUse
PROPERTY PoolFrozenWhileLocked
PROPERTY StaleChangesNothing
CHECK_DEADLOCK FALSE
