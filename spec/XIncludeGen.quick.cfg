SPECIFICATION Spec
CONSTANTS
  NF = 3
  Budget = 3
  DirCodes = {1, 3}
  Odd = TRUE
INVARIANT XIncludeInv
INVARIANT EmitCase
