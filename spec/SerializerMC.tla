---------------------------- MODULE SerializerMC ----------------------------
(* Constants of the exhaustive configurations of Serializer (sets of tuples/records cannot be written in a .cfg). *)
EXTENDS Serializer
AllClasses == {"p", "lt", "amp", "gt", "quot", "apos", "cr", "lf", "tab", "rsb", "dash", "qm", "hi", "bmp", "sup", "c0"}
CfgSet(encs, splits, v11s, tops, boms) ==
    {[enc |-> e, split |-> s, v11 |-> v, top |-> t, bom |-> b] : e \in encs, s \in splits, v \in v11s, t \in tops, b \in boms}
AllEncs == {"utf", "cp", "l1", "ascii"}
PlainRoot == {<<"", "a", "">>}
\* rich values in one node under every encoding class and split setting (XML 1.0 and 1.1)
CfgsRich11 == CfgSet(AllEncs, BOOLEAN, {TRUE}, {"decl"}, {FALSE})
CfgsRich10 == CfgSet(AllEncs, BOOLEAN, {FALSE}, {"decl"}, {FALSE})
\* structure: several nodes, every way of calling the serialiser
CfgsRich10Quick == CfgSet({"utf", "l1", "ascii"}, BOOLEAN, {FALSE}, {"decl"}, {FALSE})
CfgsStructQuick == CfgSet({"l1"}, {TRUE}, {FALSE}, {"decl", "doc", "elem"}, BOOLEAN) \cup CfgSet({"l1"}, {FALSE}, {FALSE}, {"decl"}, {FALSE})
CfgsStruct == CfgSet({"l1"}, BOOLEAN, {FALSE}, {"decl", "doc", "elem"}, BOOLEAN)
\* namespaces
CfgsNs == CfgSet({"utf"}, {TRUE}, {FALSE}, {"decl"}, {FALSE})
NsElems == {<<"", "a", "">>, <<"", "a", "u1">>, <<"p", "a", "u1">>, <<"p", "a", "u2">>}
\* names outside the target encoding
NameElems == {<<"", "a", "">>, <<"", "nh", "">>}
CfgsNames == CfgSet(AllEncs, {TRUE}, {FALSE}, {"decl"}, {FALSE})
=============================================================================
