SPECIFICATION WSpec
CONSTANTS
  PrefixSeq <- WalkPrefixes
  UriSeq <- WalkUris
  ElemPrefixSeq <- WalkPrefixes
  AttrPrefixSeq <- WalkPrefixes
  LocalSeq <- LocalsA
  Versions = {"1.0", "1.1"}
  MaxDepth = 6
  MaxElems = 9
  MaxDecls = 1
  MaxAttrs = 1
  BuildElems = 0
  BuildDecls = 0
  BuildPrefixSeq <- NoPrefix
  ProbeBudget = 0
  BigNs = {}
  BigAttrNs = {}
INVARIANT EmitW
CHECK_DEADLOCK FALSE
