SPECIFICATION TSpec
CONSTANTS
  KChar = 16384
  KRaw = 49152
  FixedEof = FALSE
INVARIANT THard
POSTCONDITION Accepted
CHECK_DEADLOCK FALSE
