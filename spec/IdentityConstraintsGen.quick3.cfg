SPECIFICATION GSpec
CONSTANTS
  Fams = {"F3a"}
  LenCap = 5
  Cases = {}
INVARIANT EmitCase
CHECK_DEADLOCK FALSE
