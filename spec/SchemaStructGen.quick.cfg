SPECIFICATION GSpec
CONSTANTS
  MaxLen = 4
  Templates = {"S1", "S2", "S3", "S4", "S5", "S6", "S7", "S8", "S9", "S10", "S11", "S13", "S14"}
INVARIANT Emit
CHECK_DEADLOCK FALSE
