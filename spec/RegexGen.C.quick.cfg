SPECIFICATION GSpec
CONSTANTS
  AlphaSeq <- Alpha4c
  MaxLen = 3
  Uni = "C"
  OptRuns <- OptRunsStd
ACTION_CONSTRAINT EmitT
CHECK_DEADLOCK FALSE
