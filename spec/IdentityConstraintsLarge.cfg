SPECIFICATION Spec
CONSTANTS
  Cases <- LCases
INVARIANT VerdictMatchesDeclarative
INVARIANT EmitLarge
CHECK_DEADLOCK FALSE
