SPECIFICATION Spec
CONSTANTS
  Family = "root"
  NTok = 2
  NTok2 = 2
  MaxVal = 1
  MaxElems = 2
INVARIANT Sound
INVARIANT NoEarlyIdref
CHECK_DEADLOCK FALSE
