--------------------------- MODULE NamespacesTrace ---------------------------
(* Binder V for Namespaces: SAX2 event streams recorded from the real parsers (harness/ns_harness v; random,
   larger documents; all scanners; namespace-prefixes on/off) are accepted iff the specification explains them:
     pm+   collects a pending declaration (allowed only directly before a start event),
     se    is StartElement(name, pending declarations, attribute names) of the specification; it must not be an
           error there, and the logged element and attribute URIs must be the ones the specification resolves,
     ee    is EndElement of the innermost open element (same prefix/local/URI),
     pm-   must end one of the mappings of the element just ended, each exactly once, before anything else happens,
     End   "ok": the document is complete and nothing is pending; otherwise (error reported) the stream is a prefix.
   The declarative invariant NearestDeclaration is evaluated on every state the implementation visited. *)
EXTENDS Namespaces, Json, IOUtils
Tr == ndJsonDeserialize(IOEnv.TRACE)
VARIABLES l, pend, pendEnd
tvars == <<vars, l, pend, pendEnd>>

RemoveOne(s, x) == LET i == CHOOSE i \in 1..Len(s) : s[i] = x IN SubSeq(s, 1, i - 1) \o SubSeq(s, i + 1, Len(s))
E == Tr[l]
Step(k) == l <= Len(Tr) /\ E.e = k /\ l' = l + 1

TReset == /\ Step("Reset")
          /\ ver' = E.u /\ dtd' = <<>>
          /\ stack' = <<>> /\ events' = <<>> /\ doc' = <<>> /\ dom' = <<>> /\ err' = FALSE /\ done' = FALSE /\ nelems' = 0
          /\ last' = [a |-> "init", errs |-> {}]
          /\ pend' = <<>> /\ pendEnd' = <<>>
TPmStart == /\ Step("pm+")
            /\ pendEnd = <<>>                                    \* the mappings of the element before are all ended
            /\ pend' = Append(pend, <<E.p, E.u>>)
            /\ UNCHANGED <<vars, pendEnd>>
TStart == /\ Step("se")
          /\ pendEnd = <<>>
          /\ StartElement(<<E.p, E.l>>, pend, [i \in 1..Len(E.a) |-> <<E.a[i][2], E.a[i][3]>>])
          /\ ~err'
          /\ LET f == stack'[Len(stack')] IN
             /\ f.uri = E.u
             /\ f.auri = [i \in 1..Len(E.a) |-> E.a[i][1]]
          /\ pend' = <<>> /\ UNCHANGED pendEnd
TEnd == /\ Step("ee")
        /\ pend = <<>> /\ pendEnd = <<>> /\ stack # <<>>
        /\ LET f == stack[Len(stack)] IN
           /\ <<f.q[1], f.q[2], f.uri>> = <<E.p, E.l, E.u>>
           /\ pendEnd' = [i \in 1..Len(f.decls) |-> f.decls[i][1]]
        /\ EndElement
        /\ UNCHANGED pend
TPmEnd == /\ Step("pm-")
          /\ \E i \in 1..Len(pendEnd) : pendEnd[i] = E.p
          /\ pendEnd' = RemoveOne(pendEnd, E.p)
          /\ UNCHANGED <<vars, pend>>
TFinish == /\ Step("End")
           /\ E.u \in {"ok", "err"}                             \* an exception escaping a parse is not an allowed outcome
           /\ (E.u = "ok" => done /\ pend = <<>> /\ pendEnd = <<>>)
           /\ UNCHANGED <<vars, pend, pendEnd>>
TInit == Init /\ l = 1 /\ pend = <<>> /\ pendEnd = <<>>
TNext == TReset \/ TPmStart \/ TStart \/ TEnd \/ TPmEnd \/ TFinish
TSpec == TInit /\ [][TNext]_tvars
TInv == NearestDeclaration /\ (done => stack = <<>>)
Accepted == /\ PrintT(<<"TRACE-RESULT", TLCGet("stats").diameter - 1, Len(Tr)>>)
            /\ TLCGet("stats").diameter - 1 = Len(Tr)
=============================================================================
