SPECIFICATION GSpec
CONSTANTS
  PrefixSeq <- BasePrefixes
  UriSeq <- BaseUris
  ElemPrefixSeq <- BasePrefixes
  AttrPrefixSeq <- BasePrefixes
  LocalSeq <- LocalsA
  Versions = {"1.0"}
  MaxDepth = 2
  MaxElems = 2
  MaxDecls = 2
  MaxAttrs = 2
  BuildElems = 1
  BuildDecls = 1
  BuildPrefixSeq <- NoPrefix
  ProbeBudget = 3
  BigNs = {}
  BigAttrNs = {}
  DtdChoices <- DtdBase
ACTION_CONSTRAINT EmitT
CHECK_DEADLOCK FALSE
