--------------------------- MODULE ReaderStackOps ---------------------------
(* Pure layer of ReaderStack: ReaderMgr's entity stack (src/xercesc/internal/ReaderMgr.cpp) as operators over
   a manager record  m = [stack, cur, nextNum].  An entry is [num, ent]: the reader number and the entity the
   reader expands (NoEnt for the document entity, an external subset, ...).  fCurReaderData is `cur`,
   fReaderStack is `stack` (bottom first).  Used by ReaderStack (exhaustive) and ParserCallTrace (real traces). *)
EXTENDS Naturals, Integers, Sequences
NoEnt == 0 - 1
NoEntry == [num |-> 0, ent |-> NoEnt]
NewMgr == [stack |-> <<>>, cur |-> NoEntry, nextNum |-> 1]
Depth(m) == Len(m.stack) + (IF m.cur = NoEntry THEN 0 ELSE 1)
(* pushReaderAdoptEntity's recursion check AS CODED: only the entries below the current reader are compared *)
PushAccepts(m, ent) == ent = NoEnt \/ \A i \in 1..Len(m.stack) : m.stack[i].ent # ent
PushOp(m, num, ent) == [m EXCEPT !.stack = IF m.cur = NoEntry THEN @ ELSE Append(@, m.cur),
                                 !.cur = [num |-> num, ent |-> ent]]
PopPre(m) == Len(m.stack) > 0
PopOp(m) == [m EXCEPT !.cur = m.stack[Len(m.stack)], !.stack = SubSeq(@, 1, Len(@) - 1)]
RECURSIVE CleanOp(_, _)
CleanOp(m, num) == IF m.cur.num = num \/ Len(m.stack) = 0 THEN m ELSE CleanOp(PopOp(m), num)
CleanFinds(m, num) == m.cur.num = num \/ \E i \in 1..Len(m.stack) : m.stack[i].num = num
ResetOp(m) == [m EXCEPT !.stack = <<>>, !.cur = NoEntry]           \* fNextReaderNum is NOT reset (as coded)

(* declarative statements on the record *)
All(m) == IF m.cur = NoEntry THEN m.stack ELSE Append(m.stack, m.cur)
NumsIncreasing(m) == \A i \in 1..(Len(All(m)) - 1) : All(m)[i].num < All(m)[i + 1].num
NumsBelowNext(m) == \A i \in 1..Len(All(m)) : All(m)[i].num < m.nextNum
(* no entity is open more than twice (the unchecked current reader allows exactly one repetition) *)
AtMostTwice(m) == \A i \in 1..Len(All(m)) : All(m)[i].ent = NoEnt \/
                      \A j, k, l \in 1..Len(All(m)) : (j < k /\ k < l) => ~(All(m)[j].ent = All(m)[k].ent /\ All(m)[k].ent = All(m)[l].ent /\ All(m)[l].ent = All(m)[i].ent)
StackInvR(m) == NumsIncreasing(m) /\ NumsBelowNext(m) /\ AtMostTwice(m)
=============================================================================
