SPECIFICATION Spec
CONSTANTS
  B = 4
  MaxRun = 7
INVARIANTS InOrderOnce AllEmitted NoOverflow Progress CountIsRest
CHECK_DEADLOCK FALSE
