SPECIFICATION FSpec
CONSTANTS
  Classes = {}
  MaxNodes = 0
  MaxChars = 0
  MaxVal = 0
  MaxDepth = 0
  LeafKinds = {}
  AttrRanks = {}
  ElemQNames = {}
  Cfgs = {}
  MaxFmt = 2
INVARIANTS FmtExact NoMarkupLeak
CONSTRAINT EmitF
CHECK_DEADLOCK FALSE
