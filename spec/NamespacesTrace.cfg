SPECIFICATION TSpec
CONSTANTS
  PrefixSeq <- NoneSeq
  UriSeq <- NoneSeq
  ElemPrefixSeq <- NoneSeq
  AttrPrefixSeq <- NoneSeq
  LocalSeq <- NoneSeq
  Versions = {"1.0"}
  MaxDepth = 100000
  MaxElems = 10000000
  MaxDecls = 0
  MaxAttrs = 0
INVARIANT TInv
POSTCONDITION Accepted
CHECK_DEADLOCK FALSE
