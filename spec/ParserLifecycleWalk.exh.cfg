SPECIFICATION WSpec
CONSTANTS
  DocIds = {1, 2, 3, 4, 5, 8}
  Loadable = {"A"}
  Vals = {0, 1}
  MaxOps = 4
  MaxK = 2
  Feats = {"val", "cache", "use"}
  AsCoded = FALSE
  Extra = TRUE
  Forget = {}
INVARIANT EmitW
INVARIANT OutcomeIsFunctionOfInputs
CHECK_DEADLOCK FALSE
