----------------------------- MODULE ReaderBufGen -----------------------------
(* Binder T for C04: the read partitions that ReaderBuf explores exhaustively at KChar = 3 / KRaw = 4, scaled to
   the real constants.  One case = one document in which a HAZARD construct (a construct whose scanning needs a
   look-ahead or a multi-byte decode) is slid across a refill point of the real reader by padding, together with
   the deliveries (partitions of the byte stream into reads) to try and the EXPECTED canonical events, which are
   computed here from the document's structure - never by a second parser.

   document  =  Open  Container(pad)  pre  HAZARD  post  Close
   the first byte (character) of HAZARD is placed at  Boundary + off,  off \in Offs, for the refill points
       "c16"  character 16384 with a one-byte pad            (character buffer full, raw bytes plentiful)
       "b48"  byte 49152 with a one-byte pad                 (raw buffer exhausted; also a character-buffer boundary)
       "m48"  byte 49152 with a two-byte pad character       (raw buffer exhausted in the middle of a character refill)
       "m16"  character 16384 with a two-byte pad character  (character buffer full, multi-byte sizes in fCharSizeBuf)
       "s0"   the start of the entity (hazards that live there: XML declaration, BOM)
   A piece of text is <<kind, cp, n, str>>:  "s" ASCII string str of n bytes; "u" n times code point cp (UTF-8);
   "b" the single raw byte cp (malformed input); the renderer is a dumb table over these four kinds.
   An expected event is <<kind, name, pieces, attrs, cdata>>. *)
EXTENDS Naturals, Integers, Sequences, TLC, Json
CONSTANTS MaxOff,        \* the hazard's first byte is placed at every offset -MaxOff..MaxOff relative to the refill point
          Bounds,        \* subset of {"c16", "b48", "m48", "m16"}
          HazardNames,   \* subset of the hazard table's names
          Parts,         \* TLC-chosen partitions: sequences of read sizes, repeated over the window around the refill point
          FileReads,     \* read sizes of the short-reading file manager
          DeclNames      \* subset of the start-of-entity hazards

Offs == (0 - MaxOff)..MaxOff
(* values for the configuration files (a .cfg cannot write tuples) *)
PartsQuick == <<<<1, 2>>, <<2, 1>>, <<3>>, <<1, 3>>, <<2, 2, 1>>, <<5>>>>
RECURSIVE SeqsOver(_, _)
SeqsOver(A, n) == IF n = 0 THEN {<<>>} ELSE {<<a>> \o s : a \in A, s \in SeqsOver(A, n - 1)}
SetToSeq(Q) == LET RECURSIVE F(_) F(R) == IF R = {} THEN <<>> ELSE LET x == CHOOSE x \in R : TRUE IN <<x>> \o F(R \ {x}) IN F(Q)
PartsThorough == SetToSeq(UNION {SeqsOver({1, 2, 3, 5}, k) : k \in 1..3})          \* every pattern of up to three reads of 1, 2, 3 or 5 bytes
FileReadsDef == <<7, 4096>>
S(str, n) == <<"s", 0, n, str>>
U(cp) == <<"u", cp, 1, "">>
Un(cp, n) == <<"u", cp, n, "">>
Byte(v) == <<"b", v, 1, "">>
Utf8Len(cp) == IF cp < 128 THEN 1 ELSE IF cp < 2048 THEN 2 ELSE IF cp < 65536 THEN 3 ELSE 4
PB(p) == IF p[1] = "s" THEN p[3] ELSE IF p[1] = "b" THEN 1 ELSE Utf8Len(p[2]) * p[3]                 \* bytes of a piece
PC(p) == IF p[1] = "s" THEN p[3] ELSE IF p[1] = "b" THEN 1 ELSE (IF p[2] >= 65536 THEN 2 ELSE 1) * p[3]  \* UTF-16 units
RECURSIVE SumB(_), SumC(_)
SumB(ps) == IF ps = <<>> THEN 0 ELSE PB(Head(ps)) + SumB(Tail(ps))
SumC(ps) == IF ps = <<>> THEN 0 ELSE PC(Head(ps)) + SumC(Tail(ps))

Ev(k, name, pieces) == <<k, name, pieces, <<>>, FALSE>>
Se(name) == <<"se", name, <<>>, <<>>, FALSE>>
SeA(name, attrs) == <<"se", name, <<>>, attrs, FALSE>>
Ee(name) == <<"ee", name, <<>>, <<>>, FALSE>>
Ch(pieces) == <<"ch", "", pieces, <<>>, FALSE>>
CData(pieces) == <<"ch", "", pieces, <<>>, TRUE>>
Cm(pieces) == <<"cm", "", pieces, <<>>, FALSE>>
Pi(target, pieces) == <<"pi", target, pieces, <<>>, FALSE>>

(* ---- the hazard table.  in: the pad lives in a comment ("cm") or in character data ("ch");
        pre/hz/post: document text around the hazard; ev: the events of pre+hz+post; wf: well-formed;
        line: line of the fatal error when not well-formed; merge: the hazard's leading text merges with a "ch" pad ---- *)
Hz(n) ==
  CASE n = "mb2"     -> [in |-> "cm", pre |-> <<S("a", 1)>>, hz |-> <<U(233)>>, post |-> <<S("b", 1)>>, wf |-> TRUE, line |-> 1,
                         ev |-> <<Ch(<<S("a", 1), U(233), S("b", 1)>>)>>]
    [] n = "mb3"     -> [in |-> "cm", pre |-> <<S("a", 1)>>, hz |-> <<U(8364)>>, post |-> <<S("b", 1)>>, wf |-> TRUE, line |-> 1,
                         ev |-> <<Ch(<<S("a", 1), U(8364), S("b", 1)>>)>>]
    [] n = "mb4"     -> [in |-> "cm", pre |-> <<S("a", 1)>>, hz |-> <<U(119070)>>, post |-> <<S("b", 1)>>, wf |-> TRUE, line |-> 1,
                         ev |-> <<Ch(<<S("a", 1), U(119070), S("b", 1)>>)>>]
    [] n = "mbrun"   -> [in |-> "cm", pre |-> <<>>, hz |-> <<U(119070), U(8364), U(233), U(119070), U(119070), U(8364)>>, post |-> <<>>, wf |-> TRUE, line |-> 1,
                         ev |-> <<Ch(<<U(119070), U(8364), U(233), U(119070), U(119070), U(8364)>>)>>]
    [] n = "crlf"    -> [in |-> "cm", pre |-> <<S("a", 1)>>, hz |-> <<U(13), U(10)>>, post |-> <<S("b", 1)>>, wf |-> TRUE, line |-> 1,
                         ev |-> <<Ch(<<S("a", 1), U(10), S("b", 1)>>)>>]
    [] n = "crcr"    -> [in |-> "cm", pre |-> <<S("a", 1)>>, hz |-> <<U(13), U(13), U(10), U(10)>>, post |-> <<S("b", 1)>>, wf |-> TRUE, line |-> 1,
                         ev |-> <<Ch(<<S("a", 1), U(10), U(10), U(10), S("b", 1)>>)>>]
    [] n = "name"    -> [in |-> "cm", pre |-> <<>>, hz |-> <<S("<longelementname at1=\"v1\" at2='v2'/>", 36)>>, post |-> <<>>, wf |-> TRUE, line |-> 1,
                         ev |-> <<SeA("longelementname", <<<<"at1", <<S("v1", 2)>>>>, <<"at2", <<S("v2", 2)>>>>>>), Ee("longelementname")>>]
    [] n = "namesp"  -> [in |-> "cm", pre |-> <<>>, hz |-> <<S("<n", 2), U(65536), U(65537), S("m/>", 3)>>, post |-> <<>>, wf |-> TRUE, line |-> 1,
                         ev |-> <<<<"seu", "", <<S("n", 1), U(65536), U(65537), S("m", 1)>>, <<>>, FALSE>>, <<"eeu", "", <<S("n", 1), U(65536), U(65537), S("m", 1)>>, <<>>, FALSE>>>>]
    [] n = "comment" -> [in |-> "ch", pre |-> <<>>, hz |-> <<S("<!--c-d-->", 10)>>, post |-> <<S("t", 1)>>, wf |-> TRUE, line |-> 1,
                         ev |-> <<Cm(<<S("c-d", 3)>>), Ch(<<S("t", 1)>>)>>]
    [] n = "cdata"   -> [in |-> "cm", pre |-> <<>>, hz |-> <<S("<![CDATA[d]]]>", 14)>>, post |-> <<S("t", 1)>>, wf |-> TRUE, line |-> 1,
                         ev |-> <<CData(<<S("d]", 2)>>), Ch(<<S("t", 1)>>)>>]
    [] n = "charref" -> [in |-> "cm", pre |-> <<S("a", 1)>>, hz |-> <<S("&#x20AC;&#65;&amp;", 18)>>, post |-> <<S("b", 1)>>, wf |-> TRUE, line |-> 1,
                         ev |-> <<Ch(<<S("a", 1), U(8364), S("A&b", 3)>>)>>]
    [] n = "etag"    -> [in |-> "cm", pre |-> <<S("<e>t", 4)>>, hz |-> <<S("</e>", 4)>>, post |-> <<>>, wf |-> TRUE, line |-> 1,
                         ev |-> <<Se("e"), Ch(<<S("t", 1)>>), Ee("e")>>]
    [] n = "pi"      -> [in |-> "cm", pre |-> <<>>, hz |-> <<S("<?tg d1 d2?>", 12)>>, post |-> <<>>, wf |-> TRUE, line |-> 1,
                         ev |-> <<Pi("tg", <<S("d1 d2", 5)>>)>>]
    [] n = "attrmb"  -> [in |-> "cm", pre |-> <<>>, hz |-> <<S("<e a=\"", 6), U(8364), U(13), U(10), S("&#x20AC;\"/>", 11)>>, post |-> <<>>, wf |-> TRUE, line |-> 1,
                         ev |-> <<SeA("e", <<<<"a", <<U(8364), S(" ", 1), U(8364)>>>>>>), Ee("e")>>]
    (* not well-formed: the same error, at the same place, whatever the delivery *)
    [] n = "badcdend" -> [in |-> "cm", pre |-> <<S("a", 1)>>, hz |-> <<S("]]>", 3)>>, post |-> <<S("b", 1)>>, wf |-> FALSE, line |-> 1, ev |-> <<>>]
    [] n = "badetag" -> [in |-> "cm", pre |-> <<S("<e>", 3)>>, hz |-> <<S("</f>", 4)>>, post |-> <<>>, wf |-> FALSE, line |-> 1, ev |-> <<>>]
    [] n = "badbyte" -> [in |-> "cm", pre |-> <<S("a", 1)>>, hz |-> <<Byte(255)>>, post |-> <<S("b", 1)>>, wf |-> FALSE, line |-> 1, ev |-> <<>>]
    [] n = "trunc"   -> [in |-> "cm", pre |-> <<S("a", 1)>>, hz |-> <<S("b", 1)>>, post |-> <<>>, wf |-> FALSE, line |-> 1, ev |-> <<>>]   \* + TailOf: the entity ends inside a sequence
    [] n = "badcont" -> [in |-> "cm", pre |-> <<S("a", 1)>>, hz |-> <<Byte(226), Byte(130), S("b", 1)>>, post |-> <<>>, wf |-> FALSE, line |-> 1, ev |-> <<>>]

(* bytes after the end of the root element *)
TailOf(n) == IF n = "trunc" THEN <<Byte(226), Byte(130)>> ELSE <<>>
Root == "rootelementname"
Open == <<S("<rootelementname>", 17)>>
Close == <<S("</rootelementname>", 18)>>
COpen(in) == IF in = "cm" THEN <<S("<!--", 4)>> ELSE <<>>
CClose(in) == IF in = "cm" THEN <<S("-->", 3)>> ELSE <<>>

PadCp(bk) == IF bk \in {"m48", "m16"} THEN 233 ELSE 120            \* two-byte pad: e-acute; one-byte pad: x
(* number of pad characters (and one ASCII filler when a two-byte pad cannot reach an odd byte offset) *)
Layout(h, bk, off) ==
  LET fixed == Open \o COpen(h.in) \o CClose(h.in) \o h.pre
      byteTarget == bk \in {"b48", "m48"}
      target == (IF byteTarget THEN 49152 ELSE 16384) + off
      room == target - (IF byteTarget THEN SumB(fixed) ELSE SumC(fixed))
      w == IF byteTarget THEN Utf8Len(PadCp(bk)) ELSE 1
  IN [n |-> room \div w, filler |-> room % w]

Doc(h, bk, off, tail) ==
  LET ly == Layout(h, bk, off)
      pad == (IF ly.filler > 0 THEN <<S("y", 1)>> ELSE <<>>) \o <<Un(PadCp(bk), ly.n)>>
  IN [pieces |-> Open \o COpen(h.in) \o pad \o CClose(h.in) \o h.pre \o h.hz \o h.post \o Close \o tail,
      pad |-> pad,
      hzByte |-> SumB(Open \o COpen(h.in) \o pad \o CClose(h.in) \o h.pre),       \* 0-based offset of the hazard's first byte
      hzChar |-> SumC(Open \o COpen(h.in) \o pad \o CClose(h.in) \o h.pre),
      hzBytes |-> SumB(h.hz), hzChars |-> SumC(h.hz)]

(* expected events: a "ch" pad merges with character data that follows it directly *)
Expected(h, d) ==
  LET head == <<Se(Root)>>
      body == IF h.in = "cm" THEN <<Cm(d.pad)>> \o h.ev
              ELSE IF h.ev # <<>> /\ h.ev[1][1] = "ch" /\ ~h.ev[1][5]
                   THEN <<Ch(d.pad \o h.ev[1][3])>> \o Tail(h.ev)
                   ELSE <<Ch(d.pad)>> \o h.ev
  IN IF h.wf THEN head \o body \o <<Ee(Root)>>
     ELSE head \o (IF h.in = "cm" THEN <<Cm(d.pad)>> ELSE <<>>)                   \* what must have been delivered before the error

Deliveries == <<<<"mem", 0, <<>>>>, <<"one", 16, <<>>>>, <<"all1", 0, <<>>>>>>
              \o [i \in 1..Len(FileReads) |-> <<"file", FileReads[i], <<>>>>]
              \o [i \in 1..Len(Parts) |-> <<"part", 12, Parts[i]>>]

Case(hn, bk, off) ==
  LET h == Hz(hn)
      d == Doc(h, bk, off, TailOf(hn))
  IN [hz |-> hn, bk |-> bk, off |-> off, wf |-> h.wf, line |-> h.line, doc |-> d.pieces,
      hzByte |-> d.hzByte, hzChar |-> d.hzChar, hzBytes |-> d.hzBytes, hzChars |-> d.hzChars,
      exp |-> Expected(h, d), dl |-> Deliveries]

(* ---- hazards at the START of the entity ("s0"): the XML declaration / BOM is decoded by hand from the first raw
        buffer (doInitDecode), so the size of the FIRST reads decides which code path sees it.  Small documents,
        every partition applied to the whole document. ---- *)
DeclDoc(n) ==
  CASE n = "decl-utf8"   -> [doc |-> <<S("<?xml version=\"1.0\" encoding=\"UTF-8\"?>", 38), S("<r>", 3), U(233), S("</r>", 4)>>, wf |-> TRUE,
                             ev |-> <<Se("r"), Ch(<<U(233)>>), Ee("r")>>]
    [] n = "decl-latin1" -> [doc |-> <<S("<?xml version=\"1.0\" encoding=\"ISO-8859-1\"?>", 43), S("<r>", 3), Byte(233), S("</r>", 4)>>, wf |-> TRUE,
                             ev |-> <<Se("r"), Ch(<<U(233)>>), Ee("r")>>]
    [] n = "decl-ascii"  -> [doc |-> <<S("<?xml version=\"1.0\" encoding=\"US-ASCII\"?>", 41), S("<r>", 3), U(233), S("</r>", 4)>>, wf |-> FALSE,
                             ev |-> <<>>]                                             \* a byte above 127 in a US-ASCII entity
    [] n = "decl-sjis"   -> [doc |-> <<S("<?xml version=\"1.0\" encoding=\"Shift_JIS\"?>", 42), S("<r>", 3), Byte(130), Byte(160), Byte(130), Byte(160), Byte(130), Byte(160), Byte(130), Byte(160), Byte(131), Byte(65), Byte(130), Byte(160), S("</r>", 4)>>, wf |-> TRUE,
                             ev |-> <<Se("r"), Ch(<<Un(12354, 4), U(12450), U(12354)>>), Ee("r")>>]   \* an ICU transcoder: a lead byte alone in a read
    [] n = "decl-long"   -> [doc |-> <<S("<?xml version=\"1.0\"", 19), Un(32, 200), S("encoding=\"UTF-8\" standalone=\"yes\"?>", 35), S("<r>", 3), U(8364), S("</r>", 4)>>, wf |-> TRUE,
                             ev |-> <<Se("r"), Ch(<<U(8364)>>), Ee("r")>>]
    [] n = "bom-utf8"    -> [doc |-> <<Byte(239), Byte(187), Byte(191), S("<r>", 3), U(233), S("</r>", 4)>>, wf |-> TRUE,
                             ev |-> <<Se("r"), Ch(<<U(233)>>), Ee("r")>>]
    [] n = "nodecl-mb"   -> [doc |-> <<S("<r>", 3), U(119070), U(233), S("</r>", 4)>>, wf |-> TRUE,
                             ev |-> <<Se("r"), Ch(<<U(119070), U(233)>>), Ee("r")>>]
DeclDeliveries == <<<<"mem", 0, <<>>>>, <<"all1", 0, <<>>>>>> \o [i \in 1..Len(Parts) |-> <<"part", 100000, Parts[i]>>]
DeclCase(n) ==
  LET d == DeclDoc(n) IN
  [hz |-> n, bk |-> "s0", off |-> 0, wf |-> d.wf, line |-> 1, doc |-> d.doc,
   hzByte |-> 0, hzChar |-> 0, hzBytes |-> SumB(d.doc), hzChars |-> SumB(d.doc),
   exp |-> d.ev, dl |-> DeclDeliveries]

VARIABLE c
Init == c \in {<<hn, bk, off>> : hn \in HazardNames, bk \in Bounds, off \in Offs} \cup {<<n, "s0", 0>> : n \in DeclNames}
Next == FALSE /\ UNCHANGED c
Spec == Init /\ [][Next]_c
Emit == PrintT(ToJson(IF c[2] = "s0" THEN DeclCase(c[1]) ELSE Case(c[1], c[2], c[3])))
(* sanity of the table itself: the layout puts the hazard where it was asked to be *)
Placed == c[2] = "s0" \/
          LET h == Hz(c[1]) d == Doc(h, c[2], c[3], <<>>) IN
          IF c[2] \in {"b48", "m48"} THEN d.hzByte = 49152 + c[3] ELSE d.hzChar = 16384 + c[3]
=============================================================================
