SPECIFICATION Spec
CONSTANTS
  Threads = {1, 2}
  Slots = {1}
  Pools = {"SP1"}
  Strs = {1, 2}
  ConstStrs <- ConstPool1
  Grams = {1}
  Grams0 = {}
  RegLen0 = 0
  ProgChoices <- Choices1
  NoLock = {"dt"}
  LazyMap = FALSE
INVARIANTS MutualExclusion
CHECK_DEADLOCK TRUE
