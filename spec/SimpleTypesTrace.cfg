SPECIFICATION TSpec
CONSTANTS
  GridSel = {}
  FullTriples = FALSE
CONSTRAINT Report
POSTCONDITION Accepted
CHECK_DEADLOCK FALSE
