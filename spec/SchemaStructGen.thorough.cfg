SPECIFICATION GSpec
CONSTANTS
  MaxLen = 6
  Templates = {"S1", "S2", "S3", "S4", "S5", "S8", "S9", "S10"}
INVARIANT Emit
CHECK_DEADLOCK FALSE
