---------------------------- MODULE DomTreeTrace ----------------------------
(* Binder V for DomTree: a history recorded from the real DOM (harness/dom_harness v) is
   accepted iff every line is explained by the specification action of the same name with the
   logged operands, the logged result is in the action's allowed set, and the logged
   projection (public getters) equals the specification's successor state.  All tree
   invariants are evaluated on every state the implementation visited. *)
EXTENDS DomTree, Json, IOUtils
Tr == ndJsonDeserialize(IOEnv.TRACE)
VARIABLE l
tvars == <<vars, l>>

ProjEq(st) ==
    /\ Len(st) = nextId' - 1
    /\ \A n \in 1..Len(st) :
          /\ st[n].k = kind'[n] /\ st[n].o = owner'[n] /\ st[n].p = parent'[n] /\ st[n].c = kids'[n]
          /\ st[n].n = name'[n] /\ st[n].v = data'[n] /\ Range(st[n].a) = attrs'[n] /\ st[n].e = ownerEl'[n]

A(i) == Tr[l].args[i]
Dispatch ==
    LET a == Tr[l].a nm == Tr[l].nm s == Tr[l].s IN
    CASE a = "createElement" -> CreateElement(A(1), nm)
      [] a = "createAttribute" -> CreateAttribute(A(1), nm)
      [] a = "createTextNode" -> CreateText(A(1), s)
      [] a = "createCDATASection" -> CreateCData(A(1), s)
      [] a = "createComment" -> CreateComment(A(1), s)
      [] a = "createProcessingInstruction" -> CreatePI(A(1), nm, s)
      [] a = "createDocumentFragment" -> CreateFragment(A(1))
      [] a = "insertBefore" -> InsertBefore(A(1), A(2), A(3))
      [] a = "appendChild" -> AppendChild(A(1), A(2))
      [] a = "removeChild" -> RemoveChild(A(1), A(2))
      [] a = "replaceChild" -> ReplaceChild(A(1), A(2), A(3))
      [] a = "cloneNode" -> CloneNode(A(1), A(2) = 1)
      [] a = "importNode" -> ImportNode(A(1), A(2), A(3) = 1)
      [] a = "adoptNode" -> AdoptNode(A(1), A(2))
      [] a = "setAttribute" -> IF nm = BadName THEN SetAttributeBadName(A(1), s) ELSE SetAttribute(A(1), nm, s)
      [] a = "renameNode" -> RenameNode(A(1), A(2), nm)
      [] a = "renameNodeNS" -> RenameNodeNS(A(1), A(2), nm)
      [] a = "removeAttribute" -> RemoveAttribute(A(1), nm)
      [] a = "setAttributeNode" -> SetAttributeNode(A(1), A(2))
      [] a = "removeAttributeNode" -> RemoveAttributeNode(A(1), A(2))
      [] a = "setNodeValue" -> SetData(A(1), s)
      [] a = "appendData" -> AppendData(A(1), s)
      [] a = "insertData" -> InsertData(A(1), A(2), s)
      [] a = "deleteData" -> DeleteData(A(1), A(2), A(3))
      [] a = "replaceData" -> ReplaceData(A(1), A(2), A(3), s)
      [] a = "splitText" -> SplitText(A(1), A(2))
      [] a = "normalize" -> Normalize(A(1))
      [] OTHER -> FALSE

TStep == /\ l <= Len(Tr) /\ Tr[l].a # "Reset"
         /\ l' = l + 1
         /\ Dispatch
         /\ Tr[l].res \in last'.allowed                       \* the logged result is one the specification allows ...
         /\ (last'.res # "ok" => last'.res = Tr[l].res)      \* ... a failure is that failure (tree unchanged) ...
         /\ (last'.res = "ok" => Tr[l].res \in {"ok", "null"}) \* ... and a success is a success
         /\ ProjEq(Tr[l].st)
         /\ nops' = nops + 1
TReset == /\ l <= Len(Tr) /\ Tr[l].a = "Reset"
          /\ l' = l + 1
          /\ kind' = [n \in Ids |-> IF n <= NDocs THEN "doc" ELSE "none"]
          /\ owner' = [n \in Ids |-> 0] /\ parent' = [n \in Ids |-> 0] /\ kids' = [n \in Ids |-> <<>>]
          /\ name' = [n \in Ids |-> ""] /\ data' = [n \in Ids |-> <<>>] /\ attrs' = [n \in Ids |-> {}]
          /\ ownerEl' = [n \in Ids |-> 0] /\ nextId' = NDocs + 1 /\ last' = NoOp /\ nops' = 0
TInit == Init /\ l = 1
TNext == TStep \/ TReset
TSpec == TInit /\ [][TNext]_tvars
TFailedOpUnchanged == [][last'.res # "ok" /\ last'.a # "init" => UNCHANGED tree]_tvars
Accepted == /\ PrintT(<<"TRACE-RESULT", TLCGet("stats").diameter - 1, Len(Tr)>>)
            /\ TLCGet("stats").diameter - 1 = Len(Tr)
=============================================================================
