SPECIFICATION FairSpec
CONSTANTS
  NF = 3
  Budget = 2
  DirCodes = {1}
  Odd = TRUE
INVARIANT XIncludeInv
PROPERTY Terminates
