------------------------------ MODULE SimpleTypes ------------------------------
(* XML Schema Part 2 (1.0, second edition) simple types: whitespace processing, lexical -> value
   mappings, facets in the value space, derivation by restriction / list / union, order and
   canonical forms.  Property C09.

   Character data are sequences of one-character strings ("Chars" explodes a TLA+ string).
   Numbers that can exceed 31 bits are never TLC integers: a decimal is
   [sg in {-1,0,1}, ip = integer digits without leading zeros, fp = fraction digits without
   trailing zeros]; comparison is by sign, length, then lexicographically.

   Two layers:
     OPERATIONAL  (suffix Op, shaped like the code: character machines, field-wise carries,
                  facet inheritance along the derivation chain) - this is what the binders use;
     DECLARATIVE  (suffix D, the vocabulary of the recommendation: grammar membership, numeric
                  order on aligned digit strings, the time line in (day, second) coordinates,
                  "satisfies every facet of every step").
   The state machine below takes one API call per step (Validate / Compare / Canonical /
   Whitespace) over the boundary grids of the configuration; the invariants state that the
   operational result equals the declarative one and the order / canonical-form laws.

   Placeholders of the small alphabet (rendered by the harness, table driven):
     "~" = U+1D11E (a character outside the BMP, not a name character),
     "^" = U+00E9  (a BMP letter, name start character). *)
EXTENDS Integers, Sequences, FiniteSets, TLC, SequencesExt, Json

Chars(s) == [i \in 1..Len(s) |-> SubSeq(s, i, i)]
Str(q) == FoldLeft(LAMBDA a, c : a \o c, "", q)
MinS(S) == CHOOSE x \in S : \A y \in S : x <= y
MaxS(S) == CHOOSE x \in S : \A y \in S : x >= y
Abs(n) == IF n < 0 THEN -n ELSE n

(* ------------------------------------------------------------------------------------------ *)
(* 1. whitespace processing (Part 2, 4.3.6)                                                    *)
(* ------------------------------------------------------------------------------------------ *)
IsWs(c) == c \in {" ", "\t", "\n", "\r"}

\* declarative
WsReplaceD(q) == [i \in 1..Len(q) |-> IF IsWs(q[i]) THEN " " ELSE q[i]]
WsCollapseD(q) ==
    LET r == WsReplaceD(q)
        nb == {j \in 1..Len(r) : r[j] # " "}
        lastNb == IF nb = {} THEN 0 ELSE MaxS(nb)
        keep(i) == r[i] # " " \/ (i > 1 /\ r[i-1] # " " /\ i < lastNb)
    IN SelectSeq([i \in 1..Len(r) |-> <<r[i], keep(i)>>], LAMBDA p : p[2])
WsD(mode, q) == CASE mode = "preserve" -> q
                  [] mode = "replace" -> WsReplaceD(q)
                  [] mode = "collapse" -> LET c == WsCollapseD(q) IN [i \in 1..Len(c) |-> c[i][1]]

\* operational: one pass, state = (output so far, a blank is pending)
WsOp(mode, q) ==
    IF mode = "preserve" THEN q
    ELSE IF mode = "replace" THEN FoldLeft(LAMBDA a, c : Append(a, IF IsWs(c) THEN " " ELSE c), <<>>, q)
    ELSE FoldLeft(LAMBDA st, c :
                     IF IsWs(c) THEN [o |-> st.o, p |-> st.o # <<>>]
                     ELSE [o |-> (IF st.p THEN Append(st.o, " ") ELSE st.o) \o <<c>>, p |-> FALSE],
                  [o |-> <<>>, p |-> FALSE], q).o

\* items of a list value: maximal runs of non-whitespace
SplitWs(q) ==
    LET st == FoldLeft(LAMBDA a, c : IF IsWs(c) THEN (IF a.cur = <<>> THEN a ELSE [items |-> Append(a.items, a.cur), cur |-> <<>>])
                                     ELSE [items |-> a.items, cur |-> Append(a.cur, c)],
                       [items |-> <<>>, cur |-> <<>>], q)
    IN IF st.cur = <<>> THEN st.items ELSE Append(st.items, st.cur)

(* ------------------------------------------------------------------------------------------ *)
(* 2. digits, decimals                                                                         *)
(* ------------------------------------------------------------------------------------------ *)
Digits == {"0", "1", "2", "3", "4", "5", "6", "7", "8", "9"}
DV == [c \in Digits |-> CASE c = "0" -> 0 [] c = "1" -> 1 [] c = "2" -> 2 [] c = "3" -> 3 [] c = "4" -> 4
                          [] c = "5" -> 5 [] c = "6" -> 6 [] c = "7" -> 7 [] c = "8" -> 8 [] c = "9" -> 9]
AllDigits(q) == \A i \in 1..Len(q) : q[i] \in Digits
StripLead0(q) == LET nz == {i \in 1..Len(q) : q[i] # "0"} IN IF nz = {} THEN <<>> ELSE SubSeq(q, MinS(nz), Len(q))
StripTrail0(q) == LET nz == {i \in 1..Len(q) : q[i] # "0"} IN IF nz = {} THEN <<>> ELSE SubSeq(q, 1, MaxS(nz))
Zeros(n) == [i \in 1..n |-> "0"]
\* lexicographic comparison of digit strings; a proper prefix is smaller
LexCmp(a, b) ==
    LET n == IF Len(a) < Len(b) THEN Len(a) ELSE Len(b)
        df == {i \in 1..n : a[i] # b[i]}
    IN IF df = {} THEN (IF Len(a) < Len(b) THEN -1 ELSE IF Len(a) > Len(b) THEN 1 ELSE 0)
       ELSE IF DV[a[MinS(df)]] < DV[b[MinS(df)]] THEN -1 ELSE 1
\* value of a short digit string (at most 9 digits) as a TLC integer
NumOf(q) == FoldLeft(LAMBDA a, c : a * 10 + DV[c], 0, q)

BadNum == [ok |-> FALSE, sg |-> 0, ip |-> <<>>, fp |-> <<>>]
\* declarative: the grammar  (+|-)? ( d+ (. d* )? | . d+ )
DecLexD(q) ==
    LET hasSign == Len(q) > 0 /\ q[1] \in {"+", "-"}
        body == IF hasSign THEN Tail(q) ELSE q
        dots == {i \in 1..Len(body) : body[i] = "."}
        ip == IF dots = {} THEN body ELSE SubSeq(body, 1, MinS(dots) - 1)
        fp == IF dots = {} THEN <<>> ELSE SubSeq(body, MinS(dots) + 1, Len(body))
        ok == Cardinality(dots) <= 1 /\ AllDigits(ip) /\ AllDigits(fp) /\ Len(ip) + Len(fp) >= 1
        i0 == StripLead0(ip)
        f0 == StripTrail0(fp)
    IN IF ~ok THEN BadNum
       ELSE [ok |-> TRUE, sg |-> IF i0 = <<>> /\ f0 = <<>> THEN 0 ELSE IF hasSign /\ q[1] = "-" THEN -1 ELSE 1, ip |-> i0, fp |-> f0]
\* operational: one scan (sign state, leading zeros, integer digits, fraction digits), then trailing zeros removed
DecLexOp(q) ==
    LET st == FoldLeft(LAMBDA a, c :
                 IF a.bad THEN a
                 ELSE IF a.ph = "start" /\ c \in {"+", "-"} THEN [a EXCEPT !.ph = "int", !.neg = (c = "-")]
                 ELSE IF c \in Digits THEN
                      (IF a.ph = "frac" THEN [a EXCEPT !.fp = Append(a.fp, c), !.nd = a.nd + 1]
                       ELSE [a EXCEPT !.ph = "int", !.ip = IF a.ip = <<>> /\ c = "0" THEN <<>> ELSE Append(a.ip, c), !.nd = a.nd + 1])
                 ELSE IF c = "." /\ a.ph # "frac" THEN [a EXCEPT !.ph = "frac"]
                 ELSE [a EXCEPT !.bad = TRUE],
                 [ph |-> "start", neg |-> FALSE, ip |-> <<>>, fp |-> <<>>, nd |-> 0, bad |-> FALSE], q)
        f0 == StripTrail0(st.fp)
    IN IF st.bad \/ st.nd = 0 THEN BadNum
       ELSE [ok |-> TRUE, sg |-> IF st.ip = <<>> /\ f0 = <<>> THEN 0 ELSE IF st.neg THEN -1 ELSE 1, ip |-> st.ip, fp |-> f0]
\* integer: (+|-)? d+
IntLexD(q) == LET v == DecLexD(q) IN IF v.ok /\ \A i \in 1..Len(q) : q[i] # "." THEN v ELSE BadNum

\* declarative order: align the digit strings, then compare as equal-length numerals
DecCmpD(x, y) ==
    LET li == IF Len(x.ip) > Len(y.ip) THEN Len(x.ip) ELSE Len(y.ip)
        lf == IF Len(x.fp) > Len(y.fp) THEN Len(x.fp) ELSE Len(y.fp)
        ax == Zeros(li - Len(x.ip)) \o x.ip \o x.fp \o Zeros(lf - Len(x.fp))
        ay == Zeros(li - Len(y.ip)) \o y.ip \o y.fp \o Zeros(lf - Len(y.fp))
        m == LexCmp(ax, ay)
    IN IF x.sg # y.sg THEN (IF x.sg < y.sg THEN -1 ELSE 1)
       ELSE IF x.sg = 0 THEN 0 ELSE x.sg * m
\* operational order: sign, number of integer digits, then the digit strings (as XMLBigDecimal::toCompare)
DecCmpOp(x, y) ==
    IF x.sg # y.sg THEN (IF x.sg > y.sg THEN 1 ELSE -1)
    ELSE IF x.sg = 0 THEN 0
    ELSE IF Len(x.ip) > Len(y.ip) THEN x.sg
    ELSE IF Len(x.ip) < Len(y.ip) THEN -x.sg
    ELSE x.sg * LexCmp(x.ip \o x.fp, y.ip \o y.fp)
\* totalDigits / fractionDigits of a value (E2-44: v = i * 10^-n, |i| < 10^totalDigits, 0 <= n <= totalDigits)
FracDigits(x) == Len(x.fp)
TotalDigits(x) == LET di == Len(StripLead0(x.ip \o x.fp)) IN IF di > Len(x.fp) THEN di ELSE Len(x.fp)
TotalDigitsOp(x) == Len(x.ip) + Len(x.fp)
\* canonical forms (3.2.3.2, 3.3.13.2)
DecCanon(x) == (IF x.sg = -1 THEN <<"-">> ELSE <<>>) \o (IF x.ip = <<>> THEN <<"0">> ELSE x.ip) \o <<".">> \o (IF x.fp = <<>> THEN <<"0">> ELSE x.fp)
IntCanon(x) == (IF x.sg = -1 THEN <<"-">> ELSE <<>>) \o (IF x.ip = <<>> THEN <<"0">> ELSE x.ip)

(* ------------------------------------------------------------------------------------------ *)
(* 3. date/time types (3.2.7 - 3.2.14) and duration (3.2.6)                                    *)
(* ------------------------------------------------------------------------------------------ *)
NoTz == 9999
BadDt == [ok |-> FALSE, y |-> 0, mo |-> 0, d |-> 0, h |-> 0, mi |-> 0, s |-> 0, fr |-> <<>>, tz |-> NoTz]
IsLeap(y) == y % 4 = 0 /\ (y % 100 # 0 \/ y % 400 = 0)
DaysIn(y, m) == IF m \in {4, 6, 9, 11} THEN 30 ELSE IF m = 2 THEN (IF IsLeap(y) THEN 29 ELSE 28) ELSE 31

\* --- lexical scanning helpers: all return [ok, p (next position), ...]
DigitsAt(q, p) == LET nd == {i \in p..Len(q) : q[i] \notin Digits} IN IF nd = {} THEN Len(q) - p + 1 ELSE MinS(nd) - p
Two(q, p) == IF p + 1 <= Len(q) /\ q[p] \in Digits /\ q[p+1] \in Digits THEN DV[q[p]] * 10 + DV[q[p+1]] ELSE -1
\* year: -? dddd+ , no leading zero when more than four digits, at most 8 digits here, not 0000
YearAt(q, p) ==
    LET neg == p <= Len(q) /\ q[p] = "-"
        s == IF neg THEN p + 1 ELSE p
        n == DigitsAt(q, s)
        okk == n >= 4 /\ n <= 8 /\ (n > 4 => q[s] # "0")
        v == IF okk THEN NumOf(SubSeq(q, s, s + n - 1)) ELSE 0
    IN [ok |-> okk /\ v # 0, p |-> s + n, v |-> IF neg THEN -v ELSE v]
\* time zone at p up to the end: "" | Z | (+|-)hh:mm ; value = minutes east of UTC
TzAt(q, p) ==
    IF p > Len(q) THEN [ok |-> TRUE, tz |-> NoTz]
    ELSE IF q[p] = "Z" THEN [ok |-> p = Len(q), tz |-> 0]
    ELSE IF q[p] \in {"+", "-"} /\ Len(q) = p + 5 /\ q[p+3] = ":" /\ Two(q, p+1) >= 0 /\ Two(q, p+4) >= 0 THEN
         LET hh == Two(q, p+1) mm == Two(q, p+4)
         IN [ok |-> mm <= 59 /\ (hh < 14 \/ (hh = 14 /\ mm = 0)), tz |-> (IF q[p] = "-" THEN -1 ELSE 1) * (hh * 60 + mm)]
    ELSE [ok |-> FALSE, tz |-> NoTz]
\* the format of each type: Y year, M month, D day, h m s two-digit fields, f optional fraction, other characters literal
DtFormat(t) == CASE t = "dateTime" -> Chars("Y-M-DTh:m:sf") [] t = "date" -> Chars("Y-M-D") [] t = "time" -> Chars("h:m:sf")
                 [] t = "gYearMonth" -> Chars("Y-M") [] t = "gYear" -> Chars("Y") [] t = "gMonthDay" -> Chars("--M-D")
                 [] t = "gDay" -> Chars("---D") [] t = "gMonth" -> Chars("--M")
DtTypes == {"dateTime", "date", "time", "gYearMonth", "gYear", "gMonthDay", "gDay", "gMonth"}
\* defaults of the absent fields (the recommendation leaves them arbitrary; any choice with a 31-day month in a leap year works)
DtDefault == [BadDt EXCEPT !.ok = TRUE, !.y = 1972, !.mo = 12, !.d = 10]
DtScan(t, q) ==
    FoldLeft(LAMBDA a, f :
        IF ~a.v.ok THEN a
        ELSE IF f = "Y" THEN LET r == YearAt(q, a.p) IN [p |-> r.p, v |-> [a.v EXCEPT !.ok = r.ok, !.y = r.v]]
        ELSE IF f \in {"M", "D", "h", "m", "s"} THEN
             LET n == Two(q, a.p) IN
             [p |-> a.p + 2, v |-> CASE f = "M" -> [a.v EXCEPT !.ok = n >= 0, !.mo = n] [] f = "D" -> [a.v EXCEPT !.ok = n >= 0, !.d = n]
                                     [] f = "h" -> [a.v EXCEPT !.ok = n >= 0, !.h = n] [] f = "m" -> [a.v EXCEPT !.ok = n >= 0, !.mi = n]
                                     [] f = "s" -> [a.v EXCEPT !.ok = n >= 0, !.s = n]]
        ELSE IF f = "f" THEN
             (IF a.p <= Len(q) /\ q[a.p] = "." THEN
                  LET n == DigitsAt(q, a.p + 1) IN [p |-> a.p + 1 + n, v |-> [a.v EXCEPT !.ok = n >= 1, !.fr = StripTrail0(SubSeq(q, a.p + 1, a.p + n))]]
              ELSE a)
        ELSE [p |-> a.p + 1, v |-> [a.v EXCEPT !.ok = a.p <= Len(q) /\ q[a.p] = f]],
      [p |-> 1, v |-> DtDefault], DtFormat(t))
DtLexM(t, q, maxS) ==
    LET a == DtScan(t, q)
        z == IF a.v.ok THEN TzAt(q, a.p) ELSE [ok |-> FALSE, tz |-> NoTz]
        v == [a.v EXCEPT !.tz = z.tz]
        rng == /\ v.mo \in 1..12 /\ v.d >= 1 /\ v.d <= DaysIn(v.y, v.mo)
               /\ (v.h <= 23 \/ (v.h = 24 /\ v.mi = 0 /\ v.s = 0 /\ v.fr = <<>>)) /\ v.mi <= 59 /\ v.s <= maxS
    IN IF a.v.ok /\ z.ok /\ rng THEN v ELSE BadDt
\* seconds: 00..59 (a literal with second 60 is left undecided by the binders: ISO 8601 leap second, not excluded clearly by Part 2 1.0)
DtLex(t, q) == DtLexM(t, q, 59)

\* --- the time line.  Declarative: (day number, second of day, fraction) with days-from-civil
DaysFromCivil(y, m, d) ==
    LET yy == IF m <= 2 THEN y - 1 ELSE y
        era == (IF yy >= 0 THEN yy ELSE yy - 399) \div 400
        yoe == yy - era * 400
        mp == (m + 9) % 12
        doy == (153 * mp + 2) \div 5 + d - 1
        doe == yoe * 365 + yoe \div 4 - yoe \div 100 + doy
    IN era * 146097 + doe - 719468
\* instant with an explicit offset (minutes east); off = 0 for non-timezoned values (local time line)
InstantD(v, off) ==
    LET secs == v.h * 3600 + v.mi * 60 + v.s - off * 60
        dd == secs \div 86400        \* TLC: \div is floor division for a positive divisor
    IN <<DaysFromCivil(v.y, v.mo, v.d) + dd, secs - dd * 86400, v.fr>>
InstCmp(a, b) == IF a[1] # b[1] THEN (IF a[1] < b[1] THEN -1 ELSE 1)
                 ELSE IF a[2] # b[2] THEN (IF a[2] < b[2] THEN -1 ELSE 1) ELSE LexCmp(a[3], b[3])
\* 3.2.7.3 order relation on dateTime: result in {"LT","EQ","GT","IN"}
Rel(c) == IF c < 0 THEN "LT" ELSE IF c > 0 THEN "GT" ELSE "EQ"
DtCmpD(p, q) ==
    IF (p.tz = NoTz) = (q.tz = NoTz) THEN Rel(InstCmp(InstantD(p, IF p.tz = NoTz THEN 0 ELSE p.tz), InstantD(q, IF q.tz = NoTz THEN 0 ELSE q.tz)))
    ELSE IF p.tz # NoTz THEN   \* P timezoned, Q not: P < Q iff P < Q+14:00 ; P > Q iff P > Q-14:00
         (IF InstCmp(InstantD(p, p.tz), InstantD(q, 840)) < 0 THEN "LT"
          ELSE IF InstCmp(InstantD(p, p.tz), InstantD(q, -840)) > 0 THEN "GT" ELSE "IN")
    ELSE (IF InstCmp(InstantD(p, -840), InstantD(q, q.tz)) < 0 THEN "LT"
          ELSE IF InstCmp(InstantD(p, 840), InstantD(q, q.tz)) > 0 THEN "GT" ELSE "IN")

\* Operational: field-wise normalisation to UTC with carries (appendix E of Part 2), then field comparison
NormOp(v, off) ==
    LET offH == IF off < 0 THEN -((-off) \div 60) ELSE off \div 60
        offM == off - offH * 60
        t1 == v.mi - offM
        c1 == t1 \div 60
        mi == t1 - c1 * 60
        t2 == v.h - offH + c1
        c2 == t2 \div 24
        h == t2 - c2 * 24
        RECURSIVE Fix(_, _, _)
        Fix(y, m, d) == IF d < 1 THEN (IF m = 1 THEN Fix(y - 1, 12, d + 31) ELSE Fix(y, m - 1, d + DaysIn(y, m - 1)))
                        ELSE IF d > DaysIn(y, m) THEN (IF m = 12 THEN Fix(y + 1, 1, d - 31) ELSE Fix(y, m + 1, d - DaysIn(y, m)))
                        ELSE <<y, m, d>>
        ymd == Fix(v.y, v.mo, v.d + c2)
    IN <<ymd[1], ymd[2], ymd[3], h, mi, v.s, v.fr>>
FieldCmp(a, b) ==
    LET df == {i \in 1..6 : a[i] # b[i]} IN
    IF df = {} THEN LexCmp(a[7], b[7]) ELSE IF a[MinS(df)] < b[MinS(df)] THEN -1 ELSE 1
DtCmpOp(p, q) ==
    IF (p.tz = NoTz) = (q.tz = NoTz) THEN Rel(FieldCmp(NormOp(p, IF p.tz = NoTz THEN 0 ELSE p.tz), NormOp(q, IF q.tz = NoTz THEN 0 ELSE q.tz)))
    ELSE IF p.tz # NoTz THEN
         (IF FieldCmp(NormOp(p, p.tz), NormOp(q, 840)) < 0 THEN "LT"
          ELSE IF FieldCmp(NormOp(p, p.tz), NormOp(q, -840)) > 0 THEN "GT" ELSE "IN")
    ELSE (IF FieldCmp(NormOp(p, -840), NormOp(q, q.tz)) < 0 THEN "LT"
          ELSE IF FieldCmp(NormOp(p, 840), NormOp(q, q.tz)) > 0 THEN "GT" ELSE "IN")

\* canonical forms: dateTime and time (3.2.7.2, 3.2.8.2): UTC, hour 24 folded, no trailing fraction zeros
P2(n) == <<CHOOSE c \in Digits : DV[c] = n \div 10, CHOOSE c \in Digits : DV[c] = n % 10>>
RECURSIVE NumStr(_)
NumStr(n) == IF n < 10 THEN <<CHOOSE c \in Digits : DV[c] = n>> ELSE Append(NumStr(n \div 10), CHOOSE c \in Digits : DV[c] = n % 10)
YearStr(y) == LET a == NumStr(Abs(y)) IN (IF y < 0 THEN <<"-">> ELSE <<>>) \o Zeros(IF Len(a) < 4 THEN 4 - Len(a) ELSE 0) \o a
DtCanon(t, v) ==
    LET n == NormOp(v, IF v.tz = NoTz THEN 0 ELSE v.tz)
        tm == P2(n[4]) \o <<":">> \o P2(n[5]) \o <<":">> \o P2(n[6]) \o (IF n[7] = <<>> THEN <<>> ELSE <<".">> \o n[7])
        z == IF v.tz = NoTz THEN <<>> ELSE <<"Z">>
        \* date (3.2.9.2, E2-41): the date of the UTC start instant with the "recoverable" time zone in -11:59 .. +12:00
        ymd(k) == YearStr(k[1]) \o <<"-">> \o P2(k[2]) \o <<"-">> \o P2(k[3])
        back == n[4] * 60 + n[5]                 \* minutes after 00:00Z of the start instant
        nx == NormOp(v, v.tz - 1440)             \* the same instant one day later: its UTC date is the next day
        fwd == 1440 - back
    IN IF t = "dateTime" THEN ymd(n) \o <<"T">> \o tm \o z
       ELSE IF t = "date" THEN
            (IF v.tz = NoTz THEN ymd(n)
             ELSE IF back = 0 THEN ymd(n) \o <<"Z">>
             ELSE IF back < 720 THEN ymd(n) \o <<"-">> \o P2(back \div 60) \o <<":">> \o P2(back % 60)
             ELSE ymd(nx) \o <<"+">> \o P2(fwd \div 60) \o <<":">> \o P2(fwd % 60))
       ELSE tm \o z     \* time

\* --- duration: -?P(nY)?(nM)?(nD)?(T(nH)?(nM)?(n(.n)?S)?)? , value = (months, seconds with fraction), sign
BadDur == [ok |-> FALSE, neg |-> FALSE, mon |-> 0, day |-> 0, sec |-> 0, fr |-> <<>>]
DurLex(q) ==
    LET neg == Len(q) > 0 /\ q[1] = "-"
        s0 == IF neg THEN 2 ELSE 1
        \* scan a sequence of  number designator  items; state: position, phase index, accumulators
        Des == Chars("YMDTHMS")
        step(a, dummy) ==
            IF a.bad \/ a.p > Len(q) THEN a
            ELSE IF q[a.p] = "T" THEN (IF a.ph <= 4 THEN [a EXCEPT !.p = a.p + 1, !.ph = 5, !.tpos = a.p + 1] ELSE [a EXCEPT !.bad = TRUE])
            ELSE LET n == DigitsAt(q, a.p)
                     hasFr == a.p + n <= Len(q) /\ q[a.p + n] = "."
                     nf == IF hasFr THEN DigitsAt(q, a.p + n + 1) ELSE 0
                     e == a.p + n + (IF hasFr THEN 1 + nf ELSE 0)
                     d == IF e <= Len(q) THEN q[e] ELSE "?"
                     cand == {k \in a.ph..7 : k # 4 /\ Des[k] = d /\ (k >= 5) = (a.tpos > 0) /\ (hasFr => k = 7)}
                 IN IF n = 0 \/ n > 6 \/ (hasFr /\ nf = 0) \/ cand = {} THEN [a EXCEPT !.bad = TRUE]
                    ELSE LET k == MinS(cand) v == NumOf(SubSeq(q, a.p, a.p + n - 1)) IN
                         [a EXCEPT !.p = e + 1, !.ph = k + 1, !.cnt = a.cnt + 1,
                                   !.mon = IF k = 1 THEN a.mon + 12 * v ELSE IF k = 2 THEN a.mon + v ELSE a.mon,
                                   !.day = IF k = 3 THEN v ELSE a.day,
                                   !.sec = IF k = 5 THEN a.sec + 3600 * v ELSE IF k = 6 THEN a.sec + 60 * v ELSE IF k = 7 THEN a.sec + v ELSE a.sec,
                                   !.fr = IF k = 7 /\ hasFr THEN StripTrail0(SubSeq(q, a.p + n + 1, a.p + n + nf)) ELSE a.fr]
        fin == FoldLeft(step, [p |-> s0 + 1, ph |-> 1, tpos |-> 0, cnt |-> 0, mon |-> 0, day |-> 0, sec |-> 0, fr |-> <<>>, bad |-> FALSE], [i \in 1..8 |-> i])
    IN IF Len(q) < s0 \/ q[s0] # "P" \/ fin.bad \/ fin.p <= Len(q) \/ fin.cnt = 0 \/ (fin.tpos > 0 /\ fin.tpos > Len(q)) \/ (fin.tpos > 0 /\ fin.ph <= 5)
       THEN BadDur
       ELSE [ok |-> TRUE, neg |-> neg, mon |-> fin.mon, day |-> fin.day, sec |-> fin.sec, fr |-> fin.fr]
\* s + x for the four reference instants of 3.2.6.2 (all are first days of a month at 00:00:00Z)
DurRefs == <<<<1696, 9>>, <<1697, 2>>, <<1903, 3>>, <<1903, 7>>>>
DurPlus(r, x) ==
    LET sg == IF x.neg THEN -1 ELSE 1
        m0 == r[1] * 12 + (r[2] - 1) + sg * x.mon
        secs == sg * x.sec
        \* a negative duration with a fraction: borrow one second so that the fraction stays non-negative
        borrow == IF x.neg /\ x.fr # <<>> THEN 1 ELSE 0
        s1 == secs - borrow
        dd == s1 \div 86400
    IN <<DaysFromCivil(m0 \div 12, (m0 % 12) + 1, 1) + sg * x.day + dd, s1 - dd * 86400, x.neg /\ x.fr # <<>>, x.fr>>
\* fractions: for a negative duration the stored fraction f means (1 - f) after the borrow: compare reversed
DurInstCmp(a, b) ==
    IF a[1] # b[1] THEN (IF a[1] < b[1] THEN -1 ELSE 1)
    ELSE IF a[2] # b[2] THEN (IF a[2] < b[2] THEN -1 ELSE 1)
    ELSE IF ~a[3] /\ ~b[3] THEN LexCmp(a[4], b[4])
    ELSE IF a[3] /\ b[3] THEN LexCmp(b[4], a[4])
    ELSE IF a[3] THEN (IF b[4] = <<>> THEN 1 ELSE 2)     \* mixed: the unflagged fraction can only be zero here
    ELSE (IF a[4] = <<>> THEN -1 ELSE 2)
DurCmp(x, y) ==
    LET cs == {DurInstCmp(DurPlus(DurRefs[i], x), DurPlus(DurRefs[i], y)) : i \in 1..4}
    IN IF cs = {0} THEN "EQ" ELSE IF cs = {-1} THEN "LT" ELSE IF cs = {1} THEN "GT" ELSE "IN"

(* ------------------------------------------------------------------------------------------ *)
(* 4. other lexical spaces                                                                     *)
(* ------------------------------------------------------------------------------------------ *)
BoolLex(q) == Str(q) \in {"true", "false", "1", "0"}
BoolVal(q) == Str(q) \in {"true", "1"}
HexChars == Digits \cup {"a", "b", "c", "d", "e", "f", "A", "B", "C", "D", "E", "F"}
HexLex(q) == Len(q) % 2 = 0 /\ \A i \in 1..Len(q) : q[i] \in HexChars
UpperHex(c) == CASE c = "a" -> "A" [] c = "b" -> "B" [] c = "c" -> "C" [] c = "d" -> "D" [] c = "e" -> "E" [] c = "f" -> "F" [] OTHER -> c
\* base64Binary (3.2.16, second edition grammar); after whitespace collapse single blanks may separate characters
B64 == Digits \cup {Chars("ABCDEFGHIJKLMNOPQRSTUVWXYZabcdefghijklmnopqrstuvwxyz+/")[i] : i \in 1..54}
B16 == {Chars("AEIMQUYcgkosw048")[i] : i \in 1..16}
B04 == {"A", "Q", "g", "w"}
B64Lex(q) ==
    LET noDouble == \A i \in 1..Len(q) : q[i] = " " => (i > 1 /\ i < Len(q) /\ q[i+1] # " ")
        c == SelectSeq(q, LAMBDA x : x # " ")
        n == Len(c)
        body(k) == \A i \in 1..k : c[i] \in B64
    IN /\ noDouble /\ n % 4 = 0
       /\ (n = 0 \/ (c[n] # "=" /\ body(n)) \/ (c[n] = "=" /\ c[n-1] # "=" /\ body(n-2) /\ c[n-1] \in B16)
                 \/ (c[n] = "=" /\ c[n-1] = "=" /\ body(n-3) /\ c[n-2] \in B04))
B64Len(q) == LET c == SelectSeq(q, LAMBDA x : x # " ") n == Len(c)
             IN IF n = 0 THEN 0 ELSE (n \div 4) * 3 - (IF c[n] = "=" THEN 1 ELSE 0) - (IF c[n-1] = "=" THEN 1 ELSE 0)
\* names over the small alphabet: letters a-z A-Z and "^", digits, "_" ":" "-" "." ; everything else is no name character
Letters == {Chars("abcdefghijklmnopqrstuvwxyzABCDEFGHIJKLMNOPQRSTUVWXYZ^")[i] : i \in 1..53}
NameStart == Letters \cup {"_", ":"}
NameChar == NameStart \cup Digits \cup {"-", "."}
NmtokenLex(q) == Len(q) >= 1 /\ \A i \in 1..Len(q) : q[i] \in NameChar
NameLex(q) == NmtokenLex(q) /\ q[1] \in NameStart
NCNameLex(q) == NameLex(q) /\ \A i \in 1..Len(q) : q[i] # ":"
QNameLex(q) == LET cs == {i \in 1..Len(q) : q[i] = ":"} IN
               IF cs = {} THEN NCNameLex(q)
               ELSE Cardinality(cs) = 1 /\ NCNameLex(SubSeq(q, 1, MinS(cs) - 1)) /\ NCNameLex(SubSeq(q, MinS(cs) + 1, Len(q)))
\* float / double: lexical space and the special values only (numeric accuracy is not decided here)
FloatLex(q) ==
    \/ Str(q) \in {"INF", "-INF", "NaN"}
    \/ LET es == {i \in 1..Len(q) : q[i] \in {"e", "E"}}
           man == IF es = {} THEN q ELSE SubSeq(q, 1, MinS(es) - 1)
           ex == IF es = {} THEN <<"0">> ELSE SubSeq(q, MinS(es) + 1, Len(q))
       IN Cardinality(es) <= 1 /\ DecLexD(man).ok /\ IntLexD(ex).ok
\* characters of the alphabet that are legal XML characters: all of them ("~" stands for one astral character)

(* ------------------------------------------------------------------------------------------ *)
(* 5. built-in types                                                                           *)
(* ------------------------------------------------------------------------------------------ *)
\* p = primitive, ws = whiteSpace, lx = additional lexical rule, lo / hi = inclusive bounds ("" = none)
B(p, ws, lx, lo, hi) == [p |-> p, ws |-> ws, lx |-> lx, lo |-> lo, hi |-> hi]
BT == [ string |-> B("string", "preserve", "", "", ""), normalizedString |-> B("string", "replace", "", "", ""),
        token |-> B("string", "collapse", "", "", ""), Name |-> B("string", "collapse", "Name", "", ""),
        NCName |-> B("string", "collapse", "NCName", "", ""), NMTOKEN |-> B("string", "collapse", "NMTOKEN", "", ""),
        ID |-> B("string", "collapse", "NCName", "", ""), IDREF |-> B("string", "collapse", "NCName", "", ""),
        boolean |-> B("boolean", "collapse", "", "", ""),
        decimal |-> B("decimal", "collapse", "", "", ""), integer |-> B("decimal", "collapse", "integer", "", ""),
        nonPositiveInteger |-> B("decimal", "collapse", "integer", "", "0"), negativeInteger |-> B("decimal", "collapse", "integer", "", "-1"),
        long |-> B("decimal", "collapse", "integer", "-9223372036854775808", "9223372036854775807"),
        int |-> B("decimal", "collapse", "integer", "-2147483648", "2147483647"),
        short |-> B("decimal", "collapse", "integer", "-32768", "32767"), byte |-> B("decimal", "collapse", "integer", "-128", "127"),
        nonNegativeInteger |-> B("decimal", "collapse", "integer", "0", ""), positiveInteger |-> B("decimal", "collapse", "integer", "1", ""),
        unsignedLong |-> B("decimal", "collapse", "integer", "0", "18446744073709551615"),
        unsignedInt |-> B("decimal", "collapse", "integer", "0", "4294967295"),
        unsignedShort |-> B("decimal", "collapse", "integer", "0", "65535"), unsignedByte |-> B("decimal", "collapse", "integer", "0", "255"),
        float |-> B("float", "collapse", "", "", ""), double |-> B("float", "collapse", "", "", ""),
        hexBinary |-> B("hexBinary", "collapse", "", "", ""), base64Binary |-> B("base64Binary", "collapse", "", "", ""),
        QName |-> B("QName", "collapse", "", "", ""), duration |-> B("duration", "collapse", "", "", ""),
        dateTime |-> B("dt", "collapse", "dateTime", "", ""), date |-> B("dt", "collapse", "date", "", ""), time |-> B("dt", "collapse", "time", "", ""),
        gYearMonth |-> B("dt", "collapse", "gYearMonth", "", ""), gYear |-> B("dt", "collapse", "gYear", "", ""),
        gMonthDay |-> B("dt", "collapse", "gMonthDay", "", ""), gDay |-> B("dt", "collapse", "gDay", "", ""), gMonth |-> B("dt", "collapse", "gMonth", "", "") ]
BuiltinNames == DOMAIN BT

(* ------------------------------------------------------------------------------------------ *)
(* 6. type descriptors, facets, validity                                                        *)
(* ------------------------------------------------------------------------------------------ *)
\* a restriction step: absent = -1 / "" / <<>>
F0 == [len |-> -1, mnl |-> -1, mxl |-> -1, td |-> -1, fd |-> -1, ws |-> "", mni |-> "", mxi |-> "", mne |-> "", mxe |-> "", pat |-> "", en |-> <<>>]
\* a type: v = "a" atomic (b = built-in name), "l" list (it = <<item type>>), "u" union (ms = member types); st = restriction steps, base first
Atomic(b, st) == [v |-> "a", b |-> b, it |-> <<>>, ms |-> <<>>, st |-> st]
ListOf(t, st) == [v |-> "l", b |-> "", it |-> <<t>>, ms |-> <<>>, st |-> st]
UnionOf(ms, st) == [v |-> "u", b |-> "", it |-> <<>>, ms |-> ms, st |-> st]

\* the only patterns used here are trivial (the regular-expression semantics is property C11): "d+" style classes
PatOk(pat, q) == CASE pat = "" -> TRUE
                   [] pat = "[0-9]+" -> Len(q) >= 1 /\ AllDigits(q)
                   [] pat = "[a-z]*" -> \A i \in 1..Len(q) : q[i] \in {Chars("abcdefghijklmnopqrstuvwxyz")[k] : k \in 1..26}
                   [] pat = ".{2}" -> Len(q) = 2 /\ \A i \in 1..2 : q[i] \notin {"\n", "\r"}
                   [] pat = "-?[0-9]{1,3}" -> LET b == IF Len(q) > 0 /\ q[1] = "-" THEN Tail(q) ELSE q IN Len(b) \in 1..3 /\ AllDigits(b)

\* effective whiteSpace: the most derived step that sets it, else the built-in's
EffWs(b, st) == LET ws == {i \in 1..Len(st) : st[i].ws # ""} IN IF ws = {} THEN BT[b].ws ELSE st[MaxS(ws)].ws

\* atomic value of a whitespace-normalised literal q for built-in b: a uniform record
\*   [ok, k kind, n decimal, t date/time, u duration, s string, l length for the length facets (-1: not applicable)]
AV(ok, k, n, t, u, s, l) == [ok |-> ok, k |-> k, n |-> n, t |-> t, u |-> u, s |-> s, l |-> l]
BadVal == AV(FALSE, "", BadNum, BadDt, BadDur, <<>>, -1)
AtomVal(b, q) ==
    LET d == BT[b] IN
    CASE d.p = "string" ->
           LET okk == CASE d.lx = "" -> TRUE [] d.lx = "Name" -> NameLex(q) [] d.lx = "NCName" -> NCNameLex(q) [] d.lx = "NMTOKEN" -> NmtokenLex(q)
           IN IF okk THEN AV(TRUE, "s", BadNum, BadDt, BadDur, q, Len(q)) ELSE BadVal
      [] d.p = "boolean" -> IF BoolLex(q) THEN AV(TRUE, "b", BadNum, BadDt, BadDur, IF BoolVal(q) THEN <<"1">> ELSE <<"0">>, -1) ELSE BadVal
      [] d.p = "decimal" ->
           LET v == IF d.lx = "integer" THEN IntLexD(q) ELSE DecLexOp(q)
               inlo == d.lo = "" \/ DecCmpOp(v, DecLexD(Chars(d.lo))) >= 0
               inhi == d.hi = "" \/ DecCmpOp(v, DecLexD(Chars(d.hi))) <= 0
           IN IF v.ok /\ inlo /\ inhi THEN AV(TRUE, "n", v, BadDt, BadDur, <<>>, -1) ELSE BadVal
      [] d.p = "float" -> IF FloatLex(q) THEN AV(TRUE, "f", BadNum, BadDt, BadDur, q, -1) ELSE BadVal
      [] d.p = "hexBinary" -> IF HexLex(q) THEN AV(TRUE, "s", BadNum, BadDt, BadDur, [i \in 1..Len(q) |-> UpperHex(q[i])], Len(q) \div 2) ELSE BadVal
      [] d.p = "base64Binary" -> IF B64Lex(q) THEN AV(TRUE, "s", BadNum, BadDt, BadDur, SelectSeq(q, LAMBDA x : x # " "), B64Len(q)) ELSE BadVal
      [] d.p = "QName" -> IF QNameLex(q) THEN AV(TRUE, "s", BadNum, BadDt, BadDur, q, -1) ELSE BadVal
      [] d.p = "duration" -> LET u == DurLex(q) IN IF u.ok THEN AV(TRUE, "u", BadNum, BadDt, u, <<>>, -1) ELSE BadVal
      [] d.p = "dt" -> LET t == DtLex(d.lx, q) IN IF t.ok THEN AV(TRUE, "t", BadNum, t, BadDur, <<>>, -1) ELSE BadVal

\* order of two atomic values of the same built-in: "LT" "EQ" "GT" "IN" (incomparable / indeterminate)
ValCmp(x, y) ==
    CASE x.k = "n" -> Rel(DecCmpOp(x.n, y.n))
      [] x.k = "t" -> DtCmpOp(x.t, y.t)
      [] x.k = "u" -> DurCmp(x.u, y.u)
      [] OTHER -> IF x.s = y.s THEN "EQ" ELSE "IN"
ValCmpD(x, y) ==
    CASE x.k = "n" -> Rel(DecCmpD(x.n, y.n))
      [] x.k = "t" -> DtCmpD(x.t, y.t)
      [] x.k = "u" -> DurCmp(x.u, y.u)
      [] OTHER -> IF x.s = y.s THEN "EQ" ELSE "IN"

\* one facet step against an atomic value (value space); lit = the normalised literal (for pattern)
StepOkAtom(b, f, x, lit) ==
    LET bound(s) == AtomVal(b, WsOp("collapse", Chars(s))) IN
    /\ PatOk(f.pat, lit)
    /\ (f.len >= 0 /\ x.l >= 0 => x.l = f.len) /\ (f.mnl >= 0 /\ x.l >= 0 => x.l >= f.mnl) /\ (f.mxl >= 0 /\ x.l >= 0 => x.l <= f.mxl)
    /\ (f.td >= 0 => TotalDigits(x.n) <= f.td) /\ (f.fd >= 0 => FracDigits(x.n) <= f.fd)
    /\ (f.mni # "" => ValCmp(x, bound(f.mni)) \in {"GT", "EQ"}) /\ (f.mxi # "" => ValCmp(x, bound(f.mxi)) \in {"LT", "EQ"})
    /\ (f.mne # "" => ValCmp(x, bound(f.mne)) = "GT") /\ (f.mxe # "" => ValCmp(x, bound(f.mxe)) = "LT")
    /\ (f.en # <<>> => \E i \in 1..Len(f.en) : ValCmp(x, AtomVal(b, WsOp(EffWs(b, <<>>), Chars(f.en[i])))) = "EQ")

\* OPERATIONAL facet evaluation (shaped like the validators): patterns are checked at every level of the chain,
\* every other facet is INHERITED: the effective value is the one of the most derived step that defines it
EffFacets(st) ==
    LET last(S) == IF S = {} THEN 0 ELSE MaxS(S)
        pick(i, dflt, sel(_)) == IF i = 0 THEN dflt ELSE sel(st[i])
    IN [len |-> pick(last({i \in 1..Len(st) : st[i].len >= 0}), -1, LAMBDA f : f.len),
        mnl |-> pick(last({i \in 1..Len(st) : st[i].mnl >= 0}), -1, LAMBDA f : f.mnl),
        mxl |-> pick(last({i \in 1..Len(st) : st[i].mxl >= 0}), -1, LAMBDA f : f.mxl),
        td |-> pick(last({i \in 1..Len(st) : st[i].td >= 0}), -1, LAMBDA f : f.td),
        fd |-> pick(last({i \in 1..Len(st) : st[i].fd >= 0}), -1, LAMBDA f : f.fd),
        ws |-> "",
        \* a bound of either kind overrides the inherited bound of both kinds on that side
        mni |-> LET k == last({i \in 1..Len(st) : st[i].mni # "" \/ st[i].mne # ""}) IN pick(k, "", LAMBDA f : f.mni),
        mne |-> LET k == last({i \in 1..Len(st) : st[i].mni # "" \/ st[i].mne # ""}) IN pick(k, "", LAMBDA f : f.mne),
        mxi |-> LET k == last({i \in 1..Len(st) : st[i].mxi # "" \/ st[i].mxe # ""}) IN pick(k, "", LAMBDA f : f.mxi),
        mxe |-> LET k == last({i \in 1..Len(st) : st[i].mxi # "" \/ st[i].mxe # ""}) IN pick(k, "", LAMBDA f : f.mxe),
        pat |-> "",
        en |-> pick(last({i \in 1..Len(st) : st[i].en # <<>>}), <<>>, LAMBDA f : f.en)]

RECURSIVE ValidOp(_, _), ValidD(_, _), ListItems(_, _), MemberOf(_, _)
\* the items (whitespace separated literals) of a list type; restriction steps do not change them
ListItems(ty, raw) == SplitWs(raw)
\* index of the first member type of a union that accepts the literal (0 = none)
MemberOf(ty, raw) == LET ok == {i \in 1..Len(ty.ms) : ValidOp(ty.ms[i], raw)} IN IF ok = {} THEN 0 ELSE MinS(ok)

\* list / union facets: length counts items; enumeration compares item-wise in the value space of the item type
ItemEq(ity, a, b) ==
    IF ity.v = "a" THEN LET x == AtomVal(ity.b, WsOp(EffWs(ity.b, ity.st), a)) y == AtomVal(ity.b, WsOp(EffWs(ity.b, ity.st), b))
                        IN x.ok /\ y.ok /\ ValCmp(x, y) = "EQ"
    ELSE a = b
StepOkList(ty, f, items) ==
    /\ (f.len >= 0 => Len(items) = f.len) /\ (f.mnl >= 0 => Len(items) >= f.mnl) /\ (f.mxl >= 0 => Len(items) <= f.mxl)
    /\ (f.en # <<>> => \E i \in 1..Len(f.en) : LET e == SplitWs(Chars(f.en[i])) IN
                          Len(e) = Len(items) /\ \A j \in 1..Len(e) : ItemEq(ty.it[1], items[j], e[j]))

ValidOp(ty, raw) ==
    CASE ty.v = "a" ->
           LET lit == WsOp(EffWs(ty.b, ty.st), raw)
               x == AtomVal(ty.b, lit)
           IN /\ x.ok
              /\ \A i \in 1..Len(ty.st) : PatOk(ty.st[i].pat, lit)
              /\ StepOkAtom(ty.b, EffFacets(ty.st), x, lit)
      [] ty.v = "l" ->
           LET items == ListItems(ty, raw) IN
           /\ \A j \in 1..Len(items) : ValidOp(ty.it[1], items[j])
           /\ StepOkList(ty, EffFacets(ty.st), items)
      [] ty.v = "u" ->
           /\ MemberOf(ty, raw) # 0
           /\ \A i \in 1..Len(ty.st) : ty.st[i].en # <<>> =>
                  \E e \in 1..Len(ty.st[i].en) :
                      \E m \in 1..Len(ty.ms) : ValidOp(ty.ms[m], raw) /\ ValidOp(ty.ms[m], Chars(ty.st[i].en[e])) /\
                           (IF ty.ms[m].v = "a" THEN ItemEq(ty.ms[m], raw, Chars(ty.st[i].en[e])) ELSE WsOp("collapse", raw) = WsOp("collapse", Chars(ty.st[i].en[e])))
\* DECLARATIVE validity: the literal, after the type's whitespace processing, is in the lexical space of the base
\* and its value satisfies EVERY facet of EVERY restriction step
ValidD(ty, raw) ==
    CASE ty.v = "a" ->
           LET lit == WsD(EffWs(ty.b, ty.st), raw)
               x == AtomVal(ty.b, lit)
           IN x.ok /\ \A i \in 1..Len(ty.st) : StepOkAtom(ty.b, ty.st[i], x, lit)
      [] ty.v = "l" ->
           LET items == SplitWs(WsD("collapse", raw)) IN
           /\ \A j \in 1..Len(items) : ValidD(ty.it[1], items[j])
           /\ \A i \in 1..Len(ty.st) : StepOkList(ty, ty.st[i], items)
      [] ty.v = "u" -> ValidOp(ty, raw)

\* value of a literal of an atomic type (for Compare / Canonical); requires ValidOp
ValOf(ty, raw) == AtomVal(ty.b, WsOp(EffWs(ty.b, ty.st), raw))
CompareOp(ty, a, b) == ValCmp(ValOf(ty, a), ValOf(ty, b))
CompareD(ty, a, b) == ValCmpD(ValOf(ty, a), ValOf(ty, b))
\* identity in the value space.  For time the value is "an instant of time that recurs every day" (3.2.8): the
\* time of day after normalisation, modulo 24 hours (24:00:00 and 00:00:00 denote the same value although the
\* ORDER of 3.2.8, taken from dateTime on an arbitrary date, separates them); for all other types EQ of the order.
SameValue(ty, a, b) ==
    LET x == ValOf(ty, a) y == ValOf(ty, b) IN
    IF ty.b = "time" THEN LET ix == InstantD(x.t, IF x.t.tz = NoTz THEN 0 ELSE x.t.tz) iy == InstantD(y.t, IF y.t.tz = NoTz THEN 0 ELSE y.t.tz)
                          IN ix[2] = iy[2] /\ ix[3] = iy[3] /\ (x.t.tz = NoTz) = (y.t.tz = NoTz)
    ELSE ValCmp(x, y) = "EQ"
\* canonical representation; HasCanon says for which built-ins this module defines it
HasCanon(b) == BT[b].p \in {"decimal", "boolean", "hexBinary"} \/ b \in {"dateTime", "time", "date"}
CanonOp(ty, raw) ==
    LET x == ValOf(ty, raw) d == BT[ty.b] IN
    CASE d.p = "decimal" -> IF d.lx = "integer" THEN IntCanon(x.n) ELSE DecCanon(x.n)
      [] d.p = "boolean" -> IF x.s = <<"1">> THEN Chars("true") ELSE Chars("false")
      [] d.p = "hexBinary" -> x.s
      [] d.p = "dt" -> DtCanon(d.lx, x.t)

(* classification of a case (identifies known findings in the check; never an expectation) *)
FacetLits(ty) == FoldLeft(LAMBDA acc, f : acc \o SelectSeq(<<f.mni, f.mxi, f.mne, f.mxe>>, LAMBDA x : x # "") \o f.en, <<>>, ty.st)
Tz14Edge(p, q) ==     \* one timezoned, one not, and exactly 14 hours apart
    /\ (p.tz = NoTz) # (q.tz = NoTz)
    /\ LET P == IF p.tz # NoTz THEN p ELSE q  Q == IF p.tz # NoTz THEN q ELSE p IN
       InstCmp(InstantD(P, P.tz), InstantD(Q, 840)) = 0 \/ InstCmp(InstantD(P, P.tz), InstantD(Q, -840)) = 0
Tags(ty, a, b) ==
    IF ty.v # "a" \/ BT[ty.b].p # "dt" THEN ""
    ELSE LET va == ValOf(ty, a)
             others == SelectSeq([i \in 1..Len(FacetLits(ty)) |-> ValOf(ty, Chars(FacetLits(ty)[i]))] \o (IF b = <<>> THEN <<>> ELSE <<ValOf(ty, b)>>), LAMBDA v : v.ok)
             h24 == ty.b # "time" /\ ((va.ok /\ va.t.h = 24) \/ \E i \in 1..Len(others) : others[i].t.h = 24)
             edge == va.ok /\ \E i \in 1..Len(others) : Tz14Edge(va.t, others[i].t)
         IN (IF h24 THEN "hour24," ELSE "") \o (IF edge THEN "tz14-edge," ELSE "")

(* ------------------------------------------------------------------------------------------ *)
(* 7. the state machine: one API call per step over the grids of the configuration              *)
(* ------------------------------------------------------------------------------------------ *)
CONSTANTS GridSel,     \* which grid families this configuration explores (a set of strings)
          FullTriples  \* TRUE: the third operand of a comparison ranges over the whole grid, FALSE: over the core literals
VARIABLES last, sel
vars == <<last, sel>>
NoCall == [f |-> "init", ty |-> Atomic("string", <<>>), a |-> <<>>, b |-> <<>>, c |-> <<>>]

\* --- grids (value literals as TLA+ strings; exploded on use)
WsGrid == {"", " ", "a", " a", "a ", "a  b", "\ta\n", " a \r b ", "\n", "a\tb", "  a b  c "}
DecGrid == {"0", "-0", "+0", "0.0", ".0", "0.", "1", "1.0", "01", "+1", "-1", ".5", "0.5", "0.50", "-.5", "1.5", "1.25", "10", "9.99", "99", "100", "0.05", "0.005",
            "999999999999999999999", "1000000000000000000000", "-999999999999999999999", "999999999999999999999.9", "12.5", "2"}
DecBad == {"", ".", "+", "-", "+.", "1..0", "1.0.0", "1e1", "--1", "1-", "1 0", "0x1", "+-1", "1,0", "~"}
IntGrid == {"0", "-0", "+0", "00", "1", "-1", "+1", "127", "128", "-128", "-129", "255", "256", "32767", "32768", "-32768", "-32769", "65535", "65536",
            "2147483647", "2147483648", "-2147483648", "-2147483649", "4294967295", "4294967296", "9223372036854775807", "9223372036854775808",
            "-9223372036854775808", "-9223372036854775809", "18446744073709551615", "18446744073709551616", "0000000000000000000127", "+127"}
IntBad == {"1.0", "1.", ".0", "", "+", "-", "1e0", "0x7F"}
DtGrid == {"2000-01-01T00:00:00", "2000-01-01T00:00:00Z", "2000-01-01T24:00:00", "2000-01-02T00:00:00", "1999-12-31T24:00:00Z", "2000-02-29T12:00:00",
           "2000-02-29T23:59:59.9Z", "2000-03-01T00:00:00+14:00", "2000-02-29T00:00:00-14:00", "1999-12-31T23:59:59", "2000-01-01T00:00:00.0", "2000-01-01T00:00:00.50",
           "2000-01-01T00:00:00.5", "2000-01-01T12:00:00+00:01", "2000-01-01T12:00:00-00:01", "2000-01-01T12:00:00+00:00", "2000-01-01T14:00:00", "2000-01-01T13:59:59",
           "2000-01-01T14:00:01", "2000-01-01T00:00:00-14:00", "2000-01-01T00:00:00+14:00", "0001-01-01T00:00:00Z", "10000-01-01T00:00:00", "1900-02-28T24:00:00Z",
           "2001-02-28T23:30:00-01:00", "2004-02-28T23:30:00-01:00", "2000-12-31T23:00:00-02:00", "2000-01-01T00:30:00+01:00"}
DtBad == {"2001-02-29T00:00:00", "1900-02-29T00:00:00", "2000-02-30T00:00:00", "2000-04-31T00:00:00", "2000-13-01T00:00:00", "2000-00-01T00:00:00", "2000-01-00T00:00:00",
          "2000-01-32T00:00:00", "2000-01-01T24:00:01", "2000-01-01T24:01:00", "2000-01-01T24:00:00.1", "2000-01-01T25:00:00", "2000-01-01T00:60:00", "2000-01-01T00:00:00+14:01",
          "2000-01-01T00:00:00-14:01", "2000-01-01T00:00:00+15:00", "2000-01-01T00:00:00+00:60", "0000-01-01T00:00:00", "200-01-01T00:00:00", "02000-01-01T00:00:00",
          "2000-1-01T00:00:00", "2000-01-01", "2000-01-01T00:00", "2000-01-01T00:00:00.", "2000-01-01T00:00:00z", "2000-01-01T00:00:00+1:00", "2000-01-01 00:00:00",
          "2000-01-01T00:00:00ZZ", "2000-01-01T00:00:00+01:00Z", "+2000-01-01T00:00:00", "2000-01-01T0:00:00", ""}
DateGrid == {"2000-01-01", "2000-01-01Z", "2000-02-29", "2004-02-29+14:00", "2000-03-01-14:00", "1999-12-31", "2000-01-01+14:00", "2000-01-01-14:00", "2000-01-02", "2000-01-01+00:00",
             "1999-12-31Z", "2000-01-02Z", "-0001-01-01", "12000-01-01", "2000-12-31-01:00", "2000-01-01+01:00",
             \* month ends, year ends, leap days around the 12:00 boundary of the recoverable time zone
             "2003-11-30-13:00", "2003-12-01+01:00", "2003-11-30-12:00", "2003-11-30-11:59", "2003-11-30+12:00", "2003-11-30+12:01", "2003-12-31-12:00",
             "2003-12-31-14:00", "2004-01-01+14:00", "2004-01-01+12:01", "2004-02-29-12:00", "2004-02-28-13:00", "2004-03-01+13:00", "2003-10-31-12:30",
             "2000-01-01-00:01", "2000-01-01+00:01", "2003-02-28-12:00", "-0045-06-15"}
DateBad == {"2001-02-29", "2100-02-29", "2000-02-30", "2000-06-31", "2000-13-01", "0000-01-01", "2000-01-01T00:00:00", "2000-1-1", "00-01-01", "2000-01-01+14:01", "2000-01-01+", "2000/01/01", "2000-01-011", ""}
TimeGrid == {"00:00:00", "24:00:00", "00:00:00Z", "24:00:00Z", "12:00:00", "12:00:00.000", "12:00:00.5", "12:00:00.50", "23:59:59", "00:00:00+14:00", "00:00:00-14:00", "12:00:00+01:00",
             "11:00:00Z", "13:00:00", "02:00:00", "22:00:00", "23:30:00-01:00", "00:30:00+01:00"}
TimeBad == {"24:00:01", "24:00:00.01", "25:00:00", "12:60:00", "12:00:61", "1:00:00", "12:00", "12:00:00+14:01", "12:00:00.", "T12:00:00", "12-00-00", ""}
GGrid == [gYearMonth |-> {"2000-01", "2000-12", "2000-02Z", "1999-12+14:00", "2000-01-14:00", "-0001-01", "12000-01", "2000-01Z"},
          gYear |-> {"2000", "2000Z", "1999+14:00", "2001-14:00", "-0001", "12000", "0001", "2000+00:00"},
          gMonthDay |-> {"--02-29", "--12-31", "--01-01Z", "--01-01", "--02-28", "--12-31Z"},
          gDay |-> {"---01", "---31", "---15Z", "---15", "---31Z"},
          gMonth |-> {"--01", "--12", "--06Z", "--06", "--12Z"}]
GBad == [gYearMonth |-> {"2000-13", "2000-00", "2000", "2000-1", "0000-01", "2000-01-01", "200-01", "2000-01+14:01"},
         gYear |-> {"0000", "200", "02000", "2000-01", "20000Z0", "+2000", ""},
         gMonthDay |-> {"--02-30", "--04-31", "--13-01", "--00-01", "--01-00", "-01-01", "--0101", "--01-1"},
         gDay |-> {"---00", "---32", "---1", "--01", "---001", "----1"},
         gMonth |-> {"--00", "--13", "--1", "-01", "--001"}]
DurGrid == {"P1M", "P30D", "P31D", "P28D", "P29D", "P27D", "P32D", "P1Y", "P365D", "P366D", "P364D", "P367D", "P12M", "PT24H", "P1D", "PT86400S", "PT0S", "-P1D", "P0Y", "PT1.5S", "PT1.50S",
            "P1Y2M3DT4H5M6.7S", "-P1M", "-P30D", "P0D", "PT1M", "PT60S", "PT1H", "PT3600S", "-PT1.5S", "PT1S", "PT2S", "PT1.51S", "-PT2S", "-P1Y", "-P365D", "P5M", "P150D", "P153D", "P151D"}
DurBad == {"", "P", "-P", "PT", "P1", "1Y", "P1YT", "P-1Y", "P1S", "PT1D", "P1M1Y", "PT1S1M", "P1.5Y", "PT1.S", "PT.5S", "P1Y ", "+P1Y", "p1y", "P1H", "PT1Y", "P1DT", "PM", "PTS", "P1YMD", "PT1HS"}
BoolGrid == {"true", "false", "1", "0", " true ", "\ttrue\n", "TRUE", "True", "yes", "", "2", "00", "01", "t rue", "truefalse"}
HexGrid == {"", "00", "0a", "0A", "ff", "FF", "0aFf", "0", "0g", "0x00", "000", "00 00", " 00 ", "~~"}
B64Grid == {"", "AAAA", "AA==", "AAA=", "AQ==", "AB==", "AAE=", "AAB=", "A===", "A", "AA", "AAA", "====", "AA=A", "AAAAAA==", "AA==AAAA", "A A A A", "AAAA AAAA", "AA = =", "AA= =", "AA ==",
            "AA  ==", "AA*A", "+/+/", "+/9=", "AAAAA", "=AAA", "A=A="}
StrGrid == {"", "a", "ab", "abc", "abcd", " a ", "a b", "a  b", "~", "~a", "^b", "a\tb", " ", "ab~"}
NameGrid == {"a", "Z", "_a", ":a", "a:b", "a:b:c", "a-", "-a", ".a", "a.", "7a", "a7", "a b", "", "a~", "^a", "a^", ":", "a:", ":a:", "a:7", "_", " a ", "a!", "-", "7"}
FloatGrid == {"0", "-0", "1", "1.5", "1e0", "1E5", "1.5e-3", "+1.0E+2", ".5", "5.", "INF", "-INF", "NaN", "+INF", "inf", "nan", "NAN", "1e", "e1", "1e1.5", "1e+", "", ".", "1f", "0x1p3", "Infinity", "-NaN", " 1 "}

\* --- derived types of the exhaustive configuration
FS(f) == <<f>>
FS2(f, g) == <<f, g>>
DecTypes == { Atomic("decimal", <<>>),
              Atomic("decimal", FS([F0 EXCEPT !.td = 3])), Atomic("decimal", FS([F0 EXCEPT !.fd = 1])), Atomic("decimal", FS([F0 EXCEPT !.td = 3, !.fd = 2])),
              Atomic("decimal", FS([F0 EXCEPT !.td = 1])), Atomic("decimal", FS([F0 EXCEPT !.fd = 0])),
              Atomic("decimal", FS([F0 EXCEPT !.mni = "0.5", !.mxi = "10"])), Atomic("decimal", FS([F0 EXCEPT !.mne = "0.5", !.mxe = "10.0"])),
              Atomic("decimal", FS([F0 EXCEPT !.mni = "-1", !.mxe = "1.50"])), Atomic("decimal", FS([F0 EXCEPT !.en = <<"1.0", "0.50", "-0">>])),
              Atomic("decimal", FS2([F0 EXCEPT !.mni = "0", !.mxi = "100"], [F0 EXCEPT !.mxi = "10"])),
              Atomic("decimal", FS2([F0 EXCEPT !.mni = "0", !.mxi = "100", !.td = 5], [F0 EXCEPT !.mne = "1", !.fd = 1])),
              Atomic("decimal", FS2([F0 EXCEPT !.mxe = "100"], [F0 EXCEPT !.mxi = "99.5"])),
              Atomic("decimal", FS2([F0 EXCEPT !.pat = "-?[0-9]{1,3}"], [F0 EXCEPT !.mxi = "99"])),
              Atomic("decimal", FS2([F0 EXCEPT !.en = <<"1", "2", "12.5">>], [F0 EXCEPT !.mxi = "2"])) }
IntTypes == {Atomic(b, <<>>) : b \in {"integer", "nonPositiveInteger", "negativeInteger", "long", "int", "short", "byte", "nonNegativeInteger", "positiveInteger",
                                     "unsignedLong", "unsignedInt", "unsignedShort", "unsignedByte"}}
            \cup { Atomic("integer", FS([F0 EXCEPT !.td = 3])), Atomic("int", FS([F0 EXCEPT !.mni = "-128", !.mxe = "128"])),
                   Atomic("byte", FS([F0 EXCEPT !.mne = "-128", !.mxi = "127"])), Atomic("unsignedByte", FS([F0 EXCEPT !.en = <<"0", "255", "007">>])),
                   Atomic("long", FS([F0 EXCEPT !.mxe = "9223372036854775807"])), Atomic("positiveInteger", FS([F0 EXCEPT !.mxi = "18446744073709551616", !.td = 20])) }
DtTypesG == { Atomic("dateTime", <<>>),
              Atomic("dateTime", FS([F0 EXCEPT !.mni = "2000-01-01T00:00:00Z", !.mxe = "2000-03-01T00:00:00Z"])),
              Atomic("dateTime", FS([F0 EXCEPT !.mne = "2000-01-01T00:00:00", !.mxi = "2000-02-29T24:00:00"])),
              Atomic("dateTime", FS([F0 EXCEPT !.en = <<"2000-01-01T24:00:00", "2000-01-01T12:00:00Z">>])) }
DateTypes == { Atomic("date", <<>>), Atomic("date", FS([F0 EXCEPT !.mni = "2000-01-01", !.mxi = "2000-02-29"])), Atomic("date", FS([F0 EXCEPT !.mne = "1999-12-31Z", !.mxe = "2000-01-02Z"])) }
TimeTypes == { Atomic("time", <<>>), Atomic("time", FS([F0 EXCEPT !.mni = "12:00:00", !.mxe = "24:00:00"])), Atomic("time", FS([F0 EXCEPT !.mni = "11:00:00Z", !.mxi = "13:00:00Z"])) }
DurTypes == { Atomic("duration", <<>>), Atomic("duration", FS([F0 EXCEPT !.mni = "P1M", !.mxi = "P1Y"])), Atomic("duration", FS([F0 EXCEPT !.mne = "P28D", !.mxe = "P31D"])),
              Atomic("duration", FS([F0 EXCEPT !.en = <<"P1D", "P12M">>])) }
StrTypes == { Atomic("string", <<>>), Atomic("normalizedString", <<>>), Atomic("token", <<>>),
              Atomic("string", FS([F0 EXCEPT !.len = 2])), Atomic("string", FS([F0 EXCEPT !.mnl = 1, !.mxl = 3])), Atomic("token", FS([F0 EXCEPT !.len = 3])),
              Atomic("string", FS([F0 EXCEPT !.ws = "collapse", !.mxl = 1])), Atomic("string", FS([F0 EXCEPT !.ws = "replace", !.len = 3])),
              Atomic("string", FS([F0 EXCEPT !.en = <<"a", "a b", " a ">>])), Atomic("token", FS([F0 EXCEPT !.en = <<"a", "a b">>])),
              Atomic("string", FS2([F0 EXCEPT !.mnl = 1, !.mxl = 4], [F0 EXCEPT !.mxl = 2])), Atomic("string", FS2([F0 EXCEPT !.mxl = 3], [F0 EXCEPT !.ws = "collapse", !.mnl = 1])),
              Atomic("string", FS([F0 EXCEPT !.pat = "[a-z]*"])), Atomic("token", FS2([F0 EXCEPT !.pat = "[a-z]*"], [F0 EXCEPT !.mxl = 2])), Atomic("string", FS([F0 EXCEPT !.pat = ".{2}"])) }
NameTypes == {Atomic(b, <<>>) : b \in {"Name", "NCName", "NMTOKEN", "QName"}} \cup { Atomic("NCName", FS([F0 EXCEPT !.mxl = 2])), Atomic("NMTOKEN", FS([F0 EXCEPT !.len = 2])) }
BinTypes == { Atomic("hexBinary", <<>>), Atomic("hexBinary", FS([F0 EXCEPT !.len = 1])), Atomic("hexBinary", FS([F0 EXCEPT !.mnl = 1, !.mxl = 2])), Atomic("hexBinary", FS([F0 EXCEPT !.en = <<"0a", "FF">>])) }
B64Types == { Atomic("base64Binary", <<>>), Atomic("base64Binary", FS([F0 EXCEPT !.len = 1])), Atomic("base64Binary", FS([F0 EXCEPT !.mnl = 2, !.mxl = 3])), Atomic("base64Binary", FS([F0 EXCEPT !.mxl = 0])) }
ListTypes == { ListOf(Atomic("integer", <<>>), <<>>), ListOf(Atomic("integer", <<>>), FS([F0 EXCEPT !.len = 2])), ListOf(Atomic("byte", <<>>), FS([F0 EXCEPT !.mnl = 1, !.mxl = 3])),
               ListOf(Atomic("decimal", FS([F0 EXCEPT !.mxi = "10"])), FS([F0 EXCEPT !.en = <<"1 2.0", "3">>])),
               ListOf(Atomic("NMTOKEN", <<>>), FS([F0 EXCEPT !.mnl = 1])),
               ListOf(Atomic("integer", <<>>), FS2([F0 EXCEPT !.mxl = 3], [F0 EXCEPT !.mnl = 2])),
               ListOf(UnionOf(<<Atomic("integer", <<>>), Atomic("boolean", <<>>)>>, <<>>), FS([F0 EXCEPT !.mxl = 2])) }
UnionTypes == { UnionOf(<<Atomic("integer", <<>>), Atomic("NCName", <<>>)>>, <<>>),
                UnionOf(<<Atomic("byte", <<>>), Atomic("boolean", <<>>)>>, <<>>),
                UnionOf(<<Atomic("decimal", FS([F0 EXCEPT !.mxi = "10"])), Atomic("token", FS([F0 EXCEPT !.en = <<"max", "1e3">>]))>>, <<>>),
                UnionOf(<<Atomic("decimal", <<>>), Atomic("token", <<>>)>>, FS([F0 EXCEPT !.en = <<"1.0", "a b">>])),
                UnionOf(<<ListOf(Atomic("byte", <<>>), FS([F0 EXCEPT !.mxl = 2])), Atomic("date", <<>>)>>, <<>>) }
ListGrid == {"", "1", "1 2", " 1  2 ", "1 2 3", "1 2 3 4", "1\t2\n3", "1 a", "1 2.0", "3.0", "3", "01 +2", "128", "127 -128", "a b", "a  b ~", "true 1", "true false 0", "1 true x", "1.0"}
UnionGrid == {"1", "a", "1a", "a:b", "", "128", "true", " 1 ", "-129", "11", "10.0", "max", "1e3", "min", "1.0", "1.00", "1", "a b", "a  b", "a   b", "b a", "1 2", "1 2 3", "2000-01-01", "1 128", " 2000-01-01 ", "2000-02-30"}

\* whitespace decorations applied to a few literals of every family
Deco(S) == S \cup {" " \o s \o " " : s \in S} \cup {"\t" \o s \o "\n" : s \in S}

\* family -> <<types, literals>>
Fam == [ dec |-> <<DecTypes, DecGrid \cup DecBad \cup {" 1.5 ", "\n1\t", "1 .5"}>>,
         int |-> <<IntTypes, IntGrid \cup IntBad \cup {" 127 ", "1 27"}>>,
         dt |-> <<DtTypesG, DtGrid \cup DtBad \cup {" 2000-01-01T00:00:00 "}>>,
         date |-> <<DateTypes, DateGrid \cup DateBad \cup {"\t2000-01-01\n"}>>,
         time |-> <<TimeTypes, TimeGrid \cup TimeBad \cup {" 12:00:00 "}>>,
         gym |-> <<{Atomic("gYearMonth", <<>>), Atomic("gYearMonth", FS([F0 EXCEPT !.mni = "2000-01", !.mxe = "2000-12"]))}, GGrid.gYearMonth \cup GBad.gYearMonth>>,
         gy |-> <<{Atomic("gYear", <<>>), Atomic("gYear", FS([F0 EXCEPT !.mne = "1999", !.mxi = "2001"]))}, GGrid.gYear \cup GBad.gYear>>,
         gmd |-> <<{Atomic("gMonthDay", <<>>)}, GGrid.gMonthDay \cup GBad.gMonthDay>>,
         gd |-> <<{Atomic("gDay", <<>>), Atomic("gDay", FS([F0 EXCEPT !.mni = "---15"]))}, GGrid.gDay \cup GBad.gDay>>,
         gm |-> <<{Atomic("gMonth", <<>>)}, GGrid.gMonth \cup GBad.gMonth>>,
         dur |-> <<DurTypes, DurGrid \cup DurBad \cup {" P1D "}>>,
         bool |-> <<{Atomic("boolean", <<>>)}, BoolGrid>>,
         hex |-> <<BinTypes, HexGrid>>,
         b64 |-> <<B64Types, B64Grid>>,
         str |-> <<StrTypes, StrGrid \cup {"\ta\n", " a  b ", "a\rb", "  "}>>,
         name |-> <<NameTypes, NameGrid>>,
         float |-> <<{Atomic("float", <<>>), Atomic("double", <<>>)}, FloatGrid>>,
         list |-> <<ListTypes, ListGrid>>,
         union |-> <<UnionTypes, UnionGrid>> ]
Families == DOMAIN Fam
\* literals of a family that are valid for a given type (used for Compare / Canonical)
ValidLits(ty, S) == {s \in S : ValidOp(ty, Chars(s))}
\* families whose atomic values are ordered (Compare is meaningful)
Ordered == {"dec", "int", "dt", "date", "time", "gym", "gy", "dur"}

NoSel == [op |-> "none", fam |-> "", ty |-> Atomic("string", <<>>), x |-> "", lits |-> {}]
Sel(op, fam, ty, x, lits) == [op |-> op, fam |-> fam, ty |-> ty, x |-> x, lits |-> lits]
\* core literals: third operands of the order axioms in the quick configuration
Core == [ dec |-> {"0", "-0", "1.0", "0.5", "0.50", "-1", "999999999999999999999", "0.05", "100"},
          int |-> {"0", "-0", "127", "-128", "2147483648", "9223372036854775807", "18446744073709551616", "+127"},
          dt |-> {"2000-01-01T00:00:00", "2000-01-01T00:00:00Z", "2000-01-01T24:00:00", "2000-01-02T00:00:00", "2000-01-01T14:00:00", "2000-01-01T00:00:00-14:00",
                  "2000-01-01T00:00:00+14:00", "2000-02-29T23:59:59.9Z", "2000-01-01T12:00:00+00:01"},
          date |-> {"2000-01-01", "2000-01-01Z", "2000-01-01+14:00", "2000-01-01-14:00", "1999-12-31", "2000-01-02Z"},
          time |-> {"00:00:00", "24:00:00", "00:00:00Z", "12:00:00.5", "00:00:00+14:00", "23:30:00-01:00"},
          gym |-> GGrid.gYearMonth, gy |-> GGrid.gYear,
          dur |-> {"P1M", "P30D", "P31D", "P28D", "P1Y", "P365D", "P366D", "PT0S", "-P1D", "PT1.5S", "-P1M", "P1D"} ]
Init == last = NoCall /\ sel = NoSel
\* first step: select the call, the type (and the first operand of a comparison); second step: the literals
\* (this only keeps TLC's workers busy; it has no other meaning)
Select == /\ sel = NoSel /\ UNCHANGED last
          /\ \/ \E fam \in GridSel : \E ty \in Fam[fam][1] : sel' = Sel("validate", fam, ty, "", {})
             \/ \E fam \in GridSel \cap Ordered : \E ty \in {t \in Fam[fam][1] : t.st = <<>> /\ (fam = "int" /\ ~FullTriples => t.b = "integer")} :
                    LET V == ValidLits(ty, Fam[fam][2]) IN \E x \in V : sel' = Sel("compare", fam, ty, x, V)
             \/ \E fam \in GridSel : \E ty \in {t \in Fam[fam][1] : t.v = "a" /\ HasCanon(t.b)} : sel' = Sel("canonical", fam, ty, "", ValidLits(ty, Fam[fam][2]))
             \/ \E m \in {"preserve", "replace", "collapse"} : "str" \in GridSel /\ sel' = Sel("whitespace", "str", Atomic("string", FS([F0 EXCEPT !.ws = m])), "", {})
Validate == /\ sel.op = "validate" /\ last = NoCall /\ UNCHANGED sel
            /\ \E s \in Fam[sel.fam][2] : last' = [f |-> "validate", ty |-> sel.ty, a |-> Chars(s), b |-> <<>>, c |-> <<>>]
Compare == /\ sel.op = "compare" /\ last = NoCall /\ UNCHANGED sel
           /\ \E y \in sel.lits : \E z \in (IF FullTriples THEN sel.lits ELSE sel.lits \cap Core[sel.fam]) : last' = [f |-> "compare", ty |-> sel.ty, a |-> Chars(sel.x), b |-> Chars(y), c |-> Chars(z)]
Canonical == /\ sel.op = "canonical" /\ last = NoCall /\ UNCHANGED sel
             /\ \E x \in sel.lits : last' = [f |-> "canonical", ty |-> sel.ty, a |-> Chars(x), b |-> <<>>, c |-> <<>>]
Whitespace == /\ sel.op = "whitespace" /\ last = NoCall /\ UNCHANGED sel
              /\ \E s \in WsGrid \cup Fam.str[2] : last' = [f |-> "whitespace", ty |-> sel.ty, a |-> Chars(s), b |-> <<>>, c |-> <<>>]
Next == Select \/ Validate \/ Compare \/ Canonical \/ Whitespace
Spec == Init /\ [][Next]_vars
\* per-action counts of the exhaustive run (TLC's -coverage cannot be used: its cost-model construction expands the
\* operator graph of this module as a tree); cfg: ACTION_CONSTRAINT CountActions, the check counts the labels
CountActions == PrintT(ToJson(IF last' # last THEN last'.f ELSE "select-" \o sel'.op))

(* ------------------------------------------------------------------------------------------ *)
(* 8. the property (declarative layer) as invariants over the last call                        *)
(* ------------------------------------------------------------------------------------------ *)
\* validity: operational (inherited effective facets, code-shaped scanners) = declarative (every facet of every step)
InvValid == last.f = "validate" => (ValidOp(last.ty, last.a) = ValidD(last.ty, last.a))
\* whitespace: the character machine computes the declarative normal form; it is idempotent; collapse leaves no blank at the ends or doubled
InvWs == last.f = "whitespace" =>
            LET m == last.ty.st[1].ws r == WsOp(m, last.a) IN
            /\ r = WsD(m, last.a) /\ WsOp(m, r) = r
            /\ (m # "preserve" => \A i \in 1..Len(r) : r[i] \notin {"\t", "\n", "\r"})
            /\ (m = "collapse" => (r # <<>> => r[1] # " " /\ r[Len(r)] # " ") /\ \A i \in 1..(Len(r) - 1) : ~(r[i] = " " /\ r[i+1] = " "))
            /\ SplitWs(r) = SplitWs(last.a)
\* order: the operational comparison equals the declarative one; equal values compare equal whatever their lexical form;
\* antisymmetric; transitive; indeterminate only between a timezoned and a non-timezoned value (or durations)
Flip(r) == CASE r = "LT" -> "GT" [] r = "GT" -> "LT" [] OTHER -> r
InvOrder == last.f = "compare" =>
            LET t == last.ty
                va == ValOf(t, last.a) vb == ValOf(t, last.b) vc == ValOf(t, last.c)
                ab == ValCmp(va, vb) bc == ValCmp(vb, vc) ac == ValCmp(va, vc)
            IN /\ ab = ValCmpD(va, vb)
               /\ ValCmp(va, va) = "EQ"
               /\ ValCmp(vb, va) = Flip(ab)
               /\ (ab = "EQ" /\ bc = "EQ" => ac = "EQ")
               /\ (ab \in {"LT", "EQ"} /\ bc \in {"LT", "EQ"} /\ "LT" \in {ab, bc} => ac = "LT")
               /\ (ab = "EQ" => bc = ac)                         \* equal values are interchangeable
               /\ (BT[t.b].p = "decimal" => ab # "IN")            \* decimal is totally ordered
               /\ (BT[t.b].p = "dt" /\ ab = "IN" => (va.t.tz = NoTz) # (vb.t.tz = NoTz))
               /\ (WsOp("collapse", last.a) = WsOp("collapse", last.b) => ab = "EQ")
\* canonical representation: valid, value preserving, idempotent
InvCanon == last.f = "canonical" =>
            LET t == last.ty c == CanonOp(t, last.a) bt == Atomic(t.b, <<>>) IN
            /\ ValidOp(bt, c)
            /\ SameValue(bt, c, last.a)
            /\ CanonOp(bt, c) = c
            /\ \A i \in 1..Len(c) : ~IsWs(c[i])
            /\ (t.b = "date" /\ ValOf(bt, c).t.tz # NoTz => ValOf(bt, c).t.tz \in (-719)..720)     \* recoverable time zone
            /\ (t.b = "date" => (ValOf(bt, c).t.tz = NoTz) = (ValOf(t, last.a).t.tz = NoTz))
=============================================================================
