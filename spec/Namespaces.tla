----------------------------- MODULE Namespaces -----------------------------
(* Namespace processing of a namespace-aware XML parser (property C06), written to be bound to
   xerces-c: ElemStack (per-element prefix map rows searched innermost-first), the two-pass
   start-tag processing of the scanners (scanRawAttrListforNameSpaces / updateNSMap, then
   resolvePrefix for the element and attribute names), the SAX2 prefix-mapping stack of
   SAX2XMLReaderImpl and the DOM Level 3 lookup algorithms of DOMNodeImpl.

   Operational layer : StartElement(q, decls, attrs) / EndElement over a stack of frames; each frame
                       carries its map row; MapPrefixToURI searches the rows from the top; the SAX2
                       events and the DOM lookup answers (DOM Level 3 Core appendix B algorithms run
                       over the frames) are produced by these actions.
   Declarative layer : NearestDeclaration, ErrorsExact, Balanced, Scoped, DomAgrees - stated over the
                       raw declarations of the ancestor-or-self chain (Namespaces in XML 1.0/1.1)
                       and over the emitted event sequence only; they never look at the map rows.

   Strings: "" is the empty prefix (default namespace) and the empty URI (no namespace /
   un-declaration).  A name is <<prefix, local>>, a declaration <<prefix, uri>>.

   Not modelled: element names with the prefix xmlns; two declarations of one prefix in one tag
   and literally repeated attribute names are well-formedness matters (C02), but repeated
   qualified names are generated because they are also expanded-name collisions. *)
EXTENDS Naturals, Sequences, FiniteSets, TLC

CONSTANTS PrefixSeq,      \* declarable prefixes, in canonical order (tuple of strings, may contain "", "xml", "xmlns")
          UriSeq,         \* URIs that declarations may bind (tuple of strings, may contain "")
          ElemPrefixSeq,  \* prefixes element names may use
          AttrPrefixSeq,  \* prefixes (non-declaration) attribute names may use
          LocalSeq,       \* attribute local names
          Versions,       \* set of XML versions: subset of {"1.0", "1.1"}
          MaxDepth, MaxElems, MaxDecls, MaxAttrs

XMLURI == "http://www.w3.org/XML/1998/namespace"
XMLNSURI == "http://www.w3.org/2000/xmlns/"
Unbound == "#unbound"          \* what resolving a prefix without binding yields (always accompanied by an error)
ELocal == "e"                  \* every element has this local name

\* tuples for the configurations (cfg files substitute them: PrefixSeq <- BasePrefixes ...)
BasePrefixes == <<"", "p", "q">>
BaseUris == <<"", "urn:u", "urn:v">>
SmallPrefixes == <<"", "p">>
SmallUris == <<"", "urn:u">>
ResPrefixes == <<"", "p", "xml", "xmlns">>
ResUris == <<"", "urn:u", XMLURI, XMLNSURI>>
ResAttrPrefixes == <<"", "p", "xml">>
NoPrefix == <<"">>
NoneSeq == <<>>
ResElemPrefixes == <<"", "p", "xml">>
WalkPrefixes == <<"", "p", "q", "r">>
WalkUris == <<"", "urn:u", "urn:v", "urn:w">>
LocalsAB == <<"a", "b">>
LocalsA == <<"a">>
\* DTDs of the enumerating configurations (a cfg may override: DtdChoices <- DtdBase)
DtdChoices == {<<>>}
DtdBase == {<<<<"p", "urn:v">>>>, <<<<"", "urn:u">>, <<"q", "urn:v">>>>}

VARIABLES ver,      \* XML version of the document
          dtd,      \* DTD: declarations <<prefix, uri>> every element type gets as DEFAULTED xmlns attributes (<!ATTLIST .. xmlns:p CDATA 'uri'>)
          stack,    \* open elements, outermost first; frame = [q, decls, attrs, row, uri, auri]
          events,   \* SAX2 events emitted so far (history)
          doc,      \* tokens of the document so far (history; what the renderer writes)
          dom,      \* expected DOM record of every element started so far, document order (history)
          err,      \* a namespace error was reported: the document is abandoned (fatal)
          done,     \* the root element was closed
          nelems,   \* elements started
          last      \* label of the last step
vars == <<ver, dtd, stack, events, doc, dom, err, done, nelems, last>>

Range(s) == {s[i] : i \in 1..Len(s)}
SeqsUpTo(S, n) == UNION {[1..k -> S] : k \in 0..n}
RECURSIVE Flat(_)
Flat(ss) == IF ss = <<>> THEN <<>> ELSE Head(ss) \o Flat(Tail(ss))
Rev(s) == [i \in 1..Len(s) |-> s[Len(s) + 1 - i]]

---------------------------------------------------------------------------
\* tag universe of the enumerating configurations: declarations in canonical prefix order with distinct
\* prefixes; attributes in canonical order, repetitions allowed (they are collisions)
DeclIdx == (1..Len(PrefixSeq)) \X (1..Len(UriSeq))
DeclSeqs == {[i \in 1..Len(s) |-> <<PrefixSeq[s[i][1]], UriSeq[s[i][2]]>>] :
               s \in {t \in SeqsUpTo(DeclIdx, MaxDecls) : \A i \in 1..(Len(t) - 1) : t[i][1] < t[i + 1][1]}}
AttrIdx == (1..Len(AttrPrefixSeq)) \X (1..Len(LocalSeq))
AttrLe(a, b) == a[1] < b[1] \/ (a[1] = b[1] /\ a[2] <= b[2])
AttrSeqs == {[i \in 1..Len(s) |-> <<AttrPrefixSeq[s[i][1]], LocalSeq[s[i][2]]>>] :
               s \in {t \in SeqsUpTo(AttrIdx, MaxAttrs) : \A i \in 1..(Len(t) - 1) : AttrLe(t[i], t[i + 1])}}
ElemNames == {<<ElemPrefixSeq[i], ELocal>> : i \in 1..Len(ElemPrefixSeq)}

---------------------------------------------------------------------------
\* OPERATIONAL LAYER

\* ElemStack::mapPrefixToURI: special prefixes first, then the rows from the top of the stack down,
\* each row in insertion order; the empty prefix falls back to the empty namespace.
RowFind(row, p) == IF \E k \in 1..Len(row) : row[k][1] = p
                   THEN row[CHOOSE k \in 1..Len(row) : row[k][1] = p /\ \A j \in 1..(k - 1) : row[j][1] # p][2]
                   ELSE Unbound
RECURSIVE MapFrom(_, _, _)
MapFrom(stk, i, p) == IF i = 0 THEN (IF p = "" THEN "" ELSE Unbound)
                      ELSE IF RowFind(stk[i].row, p) # Unbound THEN RowFind(stk[i].row, p)
                      ELSE MapFrom(stk, i - 1, p)
MapPrefixToURI(stk, p) == IF p = "xml" THEN XMLURI ELSE IF p = "xmlns" THEN XMLNSURI ELSE MapFrom(stk, Len(stk), p)

\* XMLScanner::resolvePrefix. mode "attr": the default namespace does not apply. A prefix whose nearest
\* declaration is an un-declaration (XML 1.1) is unbound (Namespaces in XML 1.1, section 5 and 6.1).
ResolvePrefix(stk, p, mode) ==
    IF p = "" /\ mode = "attr" THEN ""
    ELSE LET u == MapPrefixToURI(stk, p) IN IF p # "" /\ u = "" THEN Unbound ELSE u

\* updateNSMap: the checks on one declaration
DeclErrs(d, v) ==
    LET p == d[1] u == d[2] IN
       (IF p = "xmlns" THEN {"xmlnsPrefixDeclared"} ELSE {})
  \cup (IF p = "xml" /\ u # XMLURI THEN {"xmlPrefixRebound"} ELSE {})
  \cup (IF p \notin {"xml", ""} /\ u = XMLURI THEN {"xmlUriBoundToOtherPrefix"} ELSE {})
  \cup (IF p = "" /\ u = XMLURI THEN {"xmlUriBoundToDefault"} ELSE {})
  \cup (IF p # "" /\ u = XMLNSURI THEN {"xmlnsUriBoundToPrefix"} ELSE {})
  \cup (IF p = "" /\ u = XMLNSURI THEN {"xmlnsUriBoundToDefault"} ELSE {})
  \cup (IF p # "" /\ u = "" /\ v = "1.0" THEN {"prefixedUndeclaration"} ELSE {})

EvPmStart(d) == <<"pm+", d[1], d[2]>>
EvPmEnd(d) == <<"pm-", d[1]>>
\* attributes as SAX2 reports them: <<allowed uris, prefix, local>>; declaration attributes (only reported with the
\* feature namespace-prefixes) come last and are marked: <<.., "decl">>. SAX2 gives xmlns* attributes no namespace
\* name, the Infoset/DOM give them XMLNSURI: both are allowed there.
AttrEv(a, u) == <<{u}, a[1], a[2], "attr">>
DeclAttrEv(d) == IF d[1] = "" THEN <<{"", XMLNSURI}, "", "xmlns", "decl">> ELSE <<{"", XMLNSURI}, "xmlns", d[1], "decl">>
EvStart(f) == <<"se", f.uri, f.q[1], f.q[2],
                [i \in 1..Len(f.attrs) |-> AttrEv(f.attrs[i], f.auri[i])] \o [i \in 1..Len(f.decls) |-> DeclAttrEv(f.decls[i])]>>
EvEnd(f) == <<"ee", f.uri, f.q[1], f.q[2]>>
StartEvents(f) == [i \in 1..Len(f.decls) |-> EvPmStart(f.decls[i])] \o <<EvStart(f)>>
EndEvents(f) == <<EvEnd(f)>> \o Rev([i \in 1..Len(f.decls) |-> EvPmEnd(f.decls[i])])

\* --- DOM Level 3 Core, appendix B, run over the frames (an element's ancestors are the frames below it)
HasDecl(f, p) == \E k \in 1..Len(f.decls) : f.decls[k][1] = p
DeclUri(f, p) == f.decls[CHOOSE k \in 1..Len(f.decls) : f.decls[k][1] = p][2]
RECURSIVE LookupNS(_, _, _)
LookupNS(stk, i, p) ==      \* B.4 lookupNamespaceURI on the element of frame i; "" stands for null
    IF i = 0 THEN ""
    ELSE LET f == stk[i] IN
         IF f.uri # "" /\ f.q[1] = p THEN f.uri
         ELSE IF HasDecl(f, p) THEN DeclUri(f, p)            \* an empty value answers null ("")
         ELSE LookupNS(stk, i - 1, p)
RECURSIVE LookupPfx(_, _, _, _)
LookupPfx(stk, i, orig, u) ==   \* B.2 lookupPrefix: set of allowed answers ("" for null); attribute order is unspecified
    IF i = 0 THEN {""}
    ELSE LET f == stk[i]
             cand == {f.decls[k][1] : k \in {k \in 1..Len(f.decls) : f.decls[k][1] # "" /\ f.decls[k][2] = u /\ LookupNS(stk, orig, f.decls[k][1]) = u}}
         IN IF f.uri = u /\ f.q[1] # "" /\ LookupNS(stk, orig, f.q[1]) = u THEN {f.q[1]}
            ELSE IF cand # {} THEN cand
            ELSE LookupPfx(stk, i - 1, orig, u)
RECURSIVE IsDefaultNS(_, _, _)
IsDefaultNS(stk, i, u) ==       \* B.3 isDefaultNamespace
    IF i = 0 THEN FALSE
    ELSE LET f == stk[i] IN
         IF f.q[1] = "" THEN f.uri = u
         ELSE IF HasDecl(f, "") THEN DeclUri(f, "") = u
         ELSE IsDefaultNS(stk, i - 1, u)

LookupPrefixes == {PrefixSeq[i] : i \in {i \in 1..Len(PrefixSeq) : PrefixSeq[i] \notin {"xml", "xmlns"}}}
LookupUris == {UriSeq[i] : i \in {i \in 1..Len(UriSeq) : UriSeq[i] \notin {XMLURI, XMLNSURI}}}
\* what the DOM must say about the element of the top frame of stk (and, by delegation, about its attributes and text)
DomAttr(a, u) == <<u, a[1], a[2]>>
DomDeclAttr(d) == IF d[1] = "" THEN <<XMLNSURI, "", "xmlns">> ELSE <<XMLNSURI, "xmlns", d[1]>>
DomRec(stk) ==
    LET n == Len(stk) f == stk[n] IN
    [ns |-> f.uri, pf |-> f.q[1], ln |-> f.q[2],
     at |-> [i \in 1..Len(f.attrs) |-> DomAttr(f.attrs[i], f.auri[i])] \o [i \in 1..Len(f.decls) |-> DomDeclAttr(f.decls[i])],
     lu |-> [p \in LookupPrefixes |-> LookupNS(stk, n, p)],
     lp |-> [u \in LookupUris \ {""} |-> LookupPfx(stk, n, n, u)],
     df |-> [u \in LookupUris |-> IsDefaultNS(stk, n, u)]]

\* An attribute default applies only when the attribute is not specified (XML 1.0 section 3.3.2): the declarations in force
\* on a start tag are the written ones plus the DTD defaults of prefixes the tag does not declare itself.
Effective(decls, d) == decls \o SelectSeq(d, LAMBDA x : ~\E k \in 1..Len(decls) : decls[k][1] = x[1])
TokS(q, decls, attrs) == <<"S", q[1], q[2], decls, attrs>>
TokE == <<"E">>

\* the frame StartElement(q, decls, attrs) would push, and the errors it reports
NewFrame(stk, q, decls, attrs) ==
    \* pass 1: the written xmlns attributes, then EVERY defaulted one (as scanStartTagNS does; the first match in a row wins)
    LET raw == [q |-> q, decls |-> Effective(decls, dtd), attrs |-> attrs, row |-> decls \o dtd, uri |-> "", auri |-> <<>>]
        stk1 == Append(stk, raw)
    IN [raw EXCEPT !.uri = ResolvePrefix(stk1, q[1], "elem"),                                              \* pass 2
                   !.auri = [i \in 1..Len(attrs) |-> ResolvePrefix(stk1, attrs[i][1], "attr")]]
\* an unbound prefix is either never declared in scope, or un-declared by the nearest declaration (xmlns:p="", XML 1.1)
Undeclared(stk, p) == p \notin {"", "xml", "xmlns"} /\ MapPrefixToURI(stk, p) = ""
TagErrs(stk1, f, v) ==
       UNION {DeclErrs(f.decls[k], v) : k \in 1..Len(f.decls)}
  \cup (IF f.uri = Unbound THEN {IF Undeclared(stk1, f.q[1]) THEN "undeclaredElementPrefix" ELSE "unboundElementPrefix"} ELSE {})
  \cup {IF Undeclared(stk1, f.attrs[i][1]) THEN "undeclaredAttributePrefix" ELSE "unboundAttributePrefix" :
           i \in {i \in 1..Len(f.attrs) : f.auri[i] = Unbound}}
  \cup (IF \E i, j \in 1..Len(f.attrs) : i < j /\ f.auri[i] = f.auri[j] /\ f.attrs[i][2] = f.attrs[j][2] THEN {"attributeCollision"} ELSE {})

Init == /\ ver \in Versions /\ dtd \in DtdChoices
        /\ stack = <<>> /\ events = <<>> /\ doc = <<>> /\ dom = <<>>
        /\ err = FALSE /\ done = FALSE /\ nelems = 0
        /\ last = [a |-> "init", errs |-> {}]

StartElement(q, decls, attrs) ==
    /\ ~err /\ ~done /\ Len(stack) < MaxDepth /\ nelems < MaxElems
    /\ LET f == NewFrame(stack, q, decls, attrs)
           es == TagErrs(Append(stack, f), f, ver)
       IN /\ doc' = Append(doc, TokS(q, decls, attrs))
          /\ nelems' = nelems + 1
          /\ last' = [a |-> "StartElement", errs |-> es]
          /\ IF es # {}
             THEN err' = TRUE /\ UNCHANGED <<stack, events, dom>>
             ELSE /\ err' = FALSE
                  /\ stack' = Append(stack, f)
                  /\ events' = events \o StartEvents(f)
                  /\ dom' = Append(dom, DomRec(stack'))
    /\ UNCHANGED <<ver, dtd, done>>

EndElement ==
    /\ ~err /\ ~done /\ stack # <<>>
    /\ events' = events \o EndEvents(stack[Len(stack)])
    /\ stack' = SubSeq(stack, 1, Len(stack) - 1)
    /\ doc' = Append(doc, TokE)
    /\ done' = (stack' = <<>>)
    /\ last' = [a |-> "EndElement", errs |-> {}]
    /\ UNCHANGED <<ver, dtd, dom, err, nelems>>

Next == \/ \E q \in ElemNames, decls \in DeclSeqs, attrs \in AttrSeqs : StartElement(q, decls, attrs)
        \/ EndElement
Spec == Init /\ [][Next]_vars

\* closing everything that is open (used by the generators: the events of the end tags still to come)
RECURSIVE CloseEvents(_)
CloseEvents(stk) == IF stk = <<>> THEN <<>> ELSE EndEvents(stk[Len(stk)]) \o CloseEvents(SubSeq(stk, 1, Len(stk) - 1))
CloseToks(stk) == [i \in 1..Len(stk) |-> TokE]

---------------------------------------------------------------------------
\* DECLARATIVE LAYER (Namespaces in XML; never reads .row, .uri, .auri except to compare them)

\* the declaration of prefix p on the nearest ancestor-or-self of the element of frame n; "none" if there is none
DeclaresAt(stk, i, p) == \E k \in 1..Len(stk[i].decls) : stk[i].decls[k][1] = p
NearestDecl(stk, n, p) ==
    IF \E i \in 1..n : DeclaresAt(stk, i, p)
    THEN LET i == CHOOSE i \in 1..n : DeclaresAt(stk, i, p) /\ \A j \in (i + 1)..n : ~DeclaresAt(stk, j, p)
         IN <<"decl", DeclUri(stk[i], p)>>
    ELSE <<"none", "">>
\* the namespace name a qualified name with prefix p has at element n (kind "elem" or "attr")
ImpliedURI(stk, n, p, kind) ==
    IF p = "xml" THEN XMLURI                              \* pre-bound, cannot be rebound
    ELSE IF p = "xmlns" THEN XMLNSURI
    ELSE IF p = "" /\ kind = "attr" THEN ""               \* default namespace does not apply to attributes
    ELSE LET d == NearestDecl(stk, n, p) IN
         IF d[1] = "none" THEN (IF p = "" THEN "" ELSE Unbound)
         ELSE IF d[2] = "" /\ p # "" THEN Unbound         \* un-declared prefix (1.1)
         ELSE d[2]
FrameCorrect(stk, n) ==
    /\ stk[n].uri = ImpliedURI(stk, n, stk[n].q[1], "elem")
    /\ \A i \in 1..Len(stk[n].attrs) : stk[n].auri[i] = ImpliedURI(stk, n, stk[n].attrs[i][1], "attr")
NearestDeclaration == \A n \in 1..Len(stack) : FrameCorrect(stack, n)

\* a start tag is in error exactly when the recommendation says so
IllegalDecl(d, v) == \/ d[1] = "xmlns" \/ d[2] = XMLNSURI
                     \/ (d[1] = "xml") # (d[2] = XMLURI)
                     \/ d[1] # "" /\ d[2] = "" /\ v = "1.0"
TagInError(stk, q, decls, attrs, v) ==
    LET stk1 == Append(stk, [q |-> q, decls |-> decls, attrs |-> attrs])
        n == Len(stk1)
        U(i) == ImpliedURI(stk1, n, attrs[i][1], "attr")
    IN \/ \E k \in 1..Len(decls) : IllegalDecl(decls[k], v)
       \/ ImpliedURI(stk1, n, q[1], "elem") = Unbound
       \/ \E i \in 1..Len(attrs) : U(i) = Unbound
       \/ \E i, j \in 1..Len(attrs) : i # j /\ attrs[i][2] = attrs[j][2] /\ U(i) = U(j)
ErrorsExactStep ==        \* action-level: evaluated on every StartElement transition
    (last'.a = "StartElement" /\ nelems' = nelems + 1) =>
        LET t == doc'[Len(doc')] IN err' = TagInError(stack, <<t[2], t[3]>>, Effective(t[4], dtd), t[5], ver)

\* SAX2 prefix mapping events, over the event sequence alone
IsK(ev, i, k) == ev[i][1] = k
DepthAt(ev, i) == Cardinality({j \in 1..i : IsK(ev, j, "se")}) - Cardinality({j \in 1..i : IsK(ev, j, "ee")})
HasMatch(ev, i) == \E j \in (i + 1)..Len(ev) : IsK(ev, j, "ee") /\ DepthAt(ev, j) = DepthAt(ev, i) - 1
Match(ev, i) == CHOOSE j \in (i + 1)..Len(ev) : IsK(ev, j, "ee") /\ DepthAt(ev, j) = DepthAt(ev, i) - 1
                                              /\ \A k \in (i + 1)..(j - 1) : ~(IsK(ev, k, "ee") /\ DepthAt(ev, k) = DepthAt(ev, i) - 1)
PlusBlock(ev, i) == {k \in 1..(i - 1) : \A m \in k..(i - 1) : IsK(ev, m, "pm+")}          \* the run of pm+ just before se i
MinusBlock(ev, j) == {k \in (j + 1)..Len(ev) : \A m \in (j + 1)..k : IsK(ev, m, "pm-")}   \* the run of pm- just after ee j
Owner(ev, k) == CHOOSE i \in k..Len(ev) : IsK(ev, i, "se") /\ \A m \in k..(i - 1) : IsK(ev, m, "pm+")
CountP(ev, S, p) == Cardinality({k \in S : ev[k][2] = p})
BalancedSeq(ev) ==
    /\ \A i \in 1..Len(ev) : DepthAt(ev, i) >= 0
    /\ \A k \in 1..Len(ev) : IsK(ev, k, "pm+") => \E i \in k..Len(ev) : IsK(ev, i, "se") /\ k \in PlusBlock(ev, i)
    /\ \A k \in 1..Len(ev) : IsK(ev, k, "pm-") => \E j \in 1..k : IsK(ev, j, "ee") /\ k \in MinusBlock(ev, j)
    /\ \A i \in 1..Len(ev) : (IsK(ev, i, "se") /\ HasMatch(ev, i)) =>
          LET j == Match(ev, i) IN
          /\ <<ev[j][2], ev[j][3], ev[j][4]>> = <<ev[i][2], ev[i][3], ev[i][4]>>
          /\ \A k \in PlusBlock(ev, i) \cup MinusBlock(ev, j) :
                CountP(ev, PlusBlock(ev, i), ev[k][2]) = CountP(ev, MinusBlock(ev, j), ev[k][2])
\* the mapping of prefix p in force at start-element event i: the last pm+ for p whose element is i or still open at i
ActiveAt(ev, i, p) == {k \in 1..(i - 1) : /\ IsK(ev, k, "pm+") /\ ev[k][2] = p
                                         /\ LET o == Owner(ev, k) IN o = i \/ (o < i /\ (~HasMatch(ev, o) \/ Match(ev, o) > i))}
ScopedURI(ev, i, p, kind) ==
    IF p = "xml" THEN XMLURI
    ELSE IF p = "" /\ kind = "attr" THEN ""
    ELSE LET A == ActiveAt(ev, i, p) IN
         IF A = {} THEN (IF p = "" THEN "" ELSE Unbound)
         ELSE LET k == CHOOSE k \in A : \A m \in A : m <= k IN ev[k][3]
ScopedSeq(ev) ==
    \A i \in 1..Len(ev) : IsK(ev, i, "se") =>
        /\ ev[i][2] = ScopedURI(ev, i, ev[i][3], "elem")
        /\ \A a \in 1..Len(ev[i][5]) : ev[i][5][a][4] = "attr" => ev[i][5][a][1] = {ScopedURI(ev, i, ev[i][5][a][2], "attr")}
Balanced == BalancedSeq(events)
Scoped == ScopedSeq(events)

\* DOM lookups agree with the in-scope declarations at every element
InScope(stk, n, p) == NearestDecl(stk, n, p)[2]          \* "" when not declared or un-declared
DomAgreesAt(stk, n) ==
    LET s == SubSeq(stk, 1, n) r == DomRec(s) IN
    /\ r.ns = ImpliedURI(stk, n, r.pf, "elem")
    /\ \A p \in LookupPrefixes : r.lu[p] = InScope(stk, n, p)
    /\ \A u \in LookupUris \ {""} :
          LET bound == {p \in LookupPrefixes \ {""} : InScope(stk, n, p) = u} IN
          IF bound = {} THEN r.lp[u] = {""} ELSE r.lp[u] \subseteq bound /\ r.lp[u] # {}
    /\ \A u \in LookupUris \ {""} : r.df[u] = (InScope(stk, n, "") = u)
DomAgrees == \A n \in 1..Len(stack) : DomAgreesAt(stack, n)

TypeOK == /\ ver \in Versions /\ err \in BOOLEAN /\ done \in BOOLEAN /\ nelems \in 0..MaxElems
          /\ Len(stack) <= MaxDepth
          /\ (done => stack = <<>>)
          /\ Len(dom) = Cardinality({i \in 1..Len(events) : events[i][1] = "se"})

\* everything the property lists, as one state predicate and (for configurations with a VIEW) as action properties
NsInv == TypeOK /\ NearestDeclaration /\ Balanced /\ Scoped /\ DomAgrees
StepInv == [][NsInv']_vars
ErrorsExact == [][ErrorsExactStep]_vars
\* identity of a state for exploring: the rows of the open elements (history variables excluded)
View == <<ver, dtd, [i \in 1..Len(stack) |-> stack[i].decls], err, done>>
=============================================================================
