SPECIFICATION Spec
CONSTANTS
  Classes = {}
  MaxNodes = 5
  MaxChars = 0
  MaxVal = 0
  MaxDepth = 3
  LeafKinds = {}
  AttrRanks = {2, 3, 4}
  ElemQNames <- NsElems
  Cfgs <- CfgsNs
INVARIANTS TypeOK StepwiseIsSer ErrorIffInexpressible OutputWellFormed RoundTripContent RoundTripExact NsPreserved SplitOnlyWhereForced WarnIffSplit Idempotent
ACTION_CONSTRAINT EmitT
CHECK_DEADLOCK FALSE
