---------------------------- MODULE DomViewsWalk ----------------------------
(* Binder W for DomViews: random behaviours (tlc -simulate).  The first WBuild steps only create nodes and attach
   them, afterwards mutations, view creation, view stepping and queries are interleaved at random.  The history
   keeps raw values; projections are computed when a behaviour is printed (single Finish step, see DomTreeWalk). *)
EXTENDS DomViews, Json
CONSTANTS WBuild
VARIABLE hist
WInit == VInit /\ hist = <<>>
WBuildStep ==
    \/ \E d \in Docs, nm \in Names : VPlain(CreateElement(d, nm))
    \/ \E d \in Docs, s \in Strs : VPlain(CreateText(d, s)) \/ VPlain(CreateComment(d, s))
    \/ \E d \in Docs : VPlain(CreateFragment(d))
    \/ \E p \in Live, c \in Live : kind[p] \in ParentKinds /\ parent[c] = 0 /\ kind[c] # "frag" /\ InsErrs(p, c, 0) = {} /\ VAppendChild(p, c)
WViewNext ==
    \/ \E root \in Live, show \in Shows, filt \in Filts : CreateIterator(root, show, filt)
    \/ \E i \in 1..NIt : ItNext(i) \/ ItPrev(i)
    \/ \E root \in Live, nm \in ListNames : CreateList(root, nm)
    \/ \E l \in 1..NLs : ListLength(l) \/ \E idx \in 0..3 : ListItem(l, idx)
    \/ \E d \in Docs : CreateRange(d)
    \/ \E r \in 1..NRg, n \in Live, off \in 0..MaxData, b \in BOOLEAN : kind[n] # "attr" /\ off <= BLen(W0, n) /\ RgSet(r, n, off, b)
    \/ \E r \in 1..NRg, q \in 1..NRg, how \in 0..3 : RgCompare(r, q, how)
WStep == IF nops < WBuild THEN WBuildStep
         ELSE \/ /\ VMutNext /\ last'.res = "ok"
                 \* mutations while an iterator has no reference node yet meet a known defect (crash): sampled sparsely
                 /\ ((\E i \in 1..Len(its) : ~its[i].det /\ its[i].cur = 0) => nops % 20 = 0)
              \/ WViewNext
              \/ \E d \in Docs : VPlain(CreateText(d, AllStrs[1])) \/ VPlain(CreateElement(d, NameSeq[1])) \/ VPlain(CreateFragment(d))
WNext == \/ /\ nops < MaxOps - 1 /\ nops' = nops + 1 /\ WStep
            /\ hist' = Append(hist, [op |-> last', ret |-> ret', k |-> kind', o |-> owner', p |-> parent', c |-> kids', n |-> name',
                                       v |-> data', a |-> attrs', e |-> ownerEl', nx |-> nextId', rg |-> rgs'])
         \/ /\ nops = MaxOps - 1 /\ nops' = MaxOps /\ UNCHANGED <<tree, last, its, rgs, lss, wks, ret, hist>>
WSpec == WInit /\ [][WNext]_<<vvars, hist>>
ProjOf(h) == [i \in 1..(h.nx - 1) |-> [k |-> h.k[i], o |-> h.o[i], p |-> h.p[i], c |-> h.c[i], n |-> h.n[i],
                                       v |-> h.v[i], a |-> h.a[i], e |-> h.e[i]]]
RgOf(R) == [r \in 1..Len(R) |-> IF R[r].det THEN <<>> ELSE <<R[r].sc, R[r].so, R[r].ec, R[r].eo>>]
EmitW == (nops = MaxOps) => PrintT(ToJson(<< [i \in 1..Len(hist) |-> [op |-> hist[i].op, ret |-> hist[i].ret, st |-> ProjOf(hist[i]), rg |-> RgOf(hist[i].rg)]],
                                             ObsOf(W0, its, rgs) >>))
=============================================================================
