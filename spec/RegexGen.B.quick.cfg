SPECIFICATION GSpec
CONSTANTS
  AlphaSeq <- Alpha3
  MaxLen = 4
  Uni = "B"
  OptRuns <- OptRunsStd
ACTION_CONSTRAINT EmitT
CHECK_DEADLOCK FALSE
