--------------------------- MODULE EncodingsTrace ---------------------------
(* Binder V for Encodings: every line of the trace is ONE call of the real code
      {k kind, s service, n encoding name, law, d direction, in, max, out, eat, o (1 = new transcoder object), exc}
   recorded by harness/enc_harness v. A record is accepted iff its result is one the specification allows for
   its arguments (DecResults / EncResults / Raw16 / Probe / the single-byte laws). Records are independent except
   that (1) a converter with internal state (s = "icu") keeps the bytes it has eaten but not yet decoded from one
   call to the next on the same object (variable tp; reset by a record with o = 1), and (2) the 256 "tab" records of a single-byte encoding
   (one transcodeFrom call per byte value) define the table against which the encoder records are judged
   (Enc o Dec = id, canTranscodeTo(c) <=> c in range(Dec)).
   The trace is always consumed to the end: rejected records are printed block by block (TRACE-BAD) and counted (nbad), so that one known defect does not hide other disagreements. *)
EXTENDS Encodings, Json, IOUtils
Tr == ndJsonDeserialize(IOEnv.TRACE)
VARIABLES l, tp, bad, nbad
tvars == <<vars, l, tp, bad, nbad>>

Obs(r) == IF r.exc # "" THEN Thrown ELSE Res(r.out, r.eat, FALSE)
ExcOk(r) == r.exc \in {"", "UTFDataFormatException", "TranscodingException"}
IsRaw16(r) == r.s = "x" /\ r.k \in {"utf16le", "utf16be"}

\* ---- single-byte tables learned from the trace itself -------------------------------------------------------
TabIdx == {i \in 1..Len(Tr) : Tr[i].d = "tab" /\ Tr[i].in = <<0>>}
TabNames == {Tr[i].n : i \in TabIdx}
TabStart == [n \in TabNames |-> CHOOSE i \in TabIdx : Tr[i].n = n]
Unmapped == -1
Multi == -2
TabVal(r) == IF r.exc # "" THEN Unmapped ELSE IF Len(r.out) # 1 \/ r.eat # 1 THEN Multi ELSE r.out[1]
Tabs == [n \in TabNames |-> [b \in 0..255 |-> TabVal(Tr[TabStart[n] + b])]]
Ranges == [n \in TabNames |-> {Tabs[n][b] : b \in 0..255} \ {Unmapped, Multi}]
Range(n) == Ranges[n]
Injectives == [n \in TabNames |-> \A b1, b2 \in 0..255 : Tabs[n][b1] = Tabs[n][b2] /\ Tabs[n][b1] >= 0 => b1 = b2]
Injective(n) == Injectives[n]
\* ISO-8859-15 differs from ISO-8859-1 in exactly eight positions
L9 == (164 :> 8364) @@ (166 :> 352) @@ (168 :> 353) @@ (180 :> 381) @@ (184 :> 382) @@ (188 :> 338) @@ (189 :> 339) @@ (190 :> 376)
\* EBCDIC invariant characters (letters, digits and the punctuation of an XML declaration): byte -> character
EbcdicInvariant(b) ==
    CASE b \in 193..201 -> 65 + (b - 193) [] b \in 209..217 -> 74 + (b - 209) [] b \in 226..233 -> 83 + (b - 226)
      [] b \in 129..137 -> 97 + (b - 129) [] b \in 145..153 -> 106 + (b - 145) [] b \in 162..169 -> 115 + (b - 162)
      [] b \in 240..249 -> 48 + (b - 240)
      [] b = 64 -> 32 [] b = 75 -> 46 [] b = 76 -> 60 [] b = 96 -> 45 [] b = 97 -> 47 [] b = 110 -> 62 [] b = 111 -> 63 [] b = 126 -> 61 [] b = 127 -> 34
      [] b = 0 -> 0 [] b = 13 -> 13 [] b = 5 -> 9
      [] OTHER -> -9
LawOk(law, n, b, u) ==
    /\ u # 65533                                   \* no byte of a single-byte code page is U+FFFD: that is a silent substitution
    /\ u # Multi
    /\ CASE law = "latin1" -> u = b
         [] law = "ascii" -> IF b < 128 THEN u = b ELSE u = Unmapped
         [] law = "cp1252" -> (b \notin 128..159 => u = b) /\ (b \in 128..159 => u = Unmapped \/ u = b \/ u > 255)
         [] law = "iso8859" -> (b < 160 => u = b) /\ (b >= 160 => u >= 160 \/ u = Unmapped)
         [] law = "iso885915" -> IF b \in DOMAIN L9 THEN u = L9[b] ELSE u = b
         [] law = "asciisuper" -> (b < 128 => u = b) /\ (b >= 128 => u >= 128 \/ u = Unmapped)
         [] law = "ebcdic" -> (EbcdicInvariant(b) # -9 => u = EbcdicInvariant(b))
         [] law = "ibm1140" -> /\ (EbcdicInvariant(b) # -9 => u = EbcdicInvariant(b))
                               /\ "IBM037.base" \in TabNames
                               /\ (IF b = 159 THEN u = 8364 ELSE u = Tabs["IBM037.base"][b])
         [] OTHER -> FALSE
    /\ (b = 255 => Injective(n))
SbOk(r, i) ==
    LET n == r.n IN
    /\ n \in TabNames
    /\ CASE r.d = "tab" -> /\ r.in = <<i - TabStart[n]>> /\ i - TabStart[n] \in 0..255 /\ r.max = 1
                           /\ ExcOk(r) /\ LawOk(r.law, n, r.in[1], Tabs[n][r.in[1]])
         [] r.d = "from" -> LET cnt == Min(Len(r.in), r.max)
                                vals == [j \in 1..cnt |-> Tabs[n][r.in[j]]] IN
                            IF \E j \in 1..cnt : vals[j] < 0 THEN r.exc # "" /\ ExcOk(r)
                            ELSE r.exc = "" /\ r.out = vals /\ r.eat = cnt
         [] r.d = "to" -> IF \A j \in 1..Len(r.in) : r.in[j] \in Range(n)         \* representable characters (possibly limited room)
                          THEN LET cnt == Min(Len(r.in), r.max) IN
                               /\ r.exc = "" /\ r.eat = cnt /\ Len(r.out) = cnt
                               /\ \A j \in 1..cnt : Tabs[n][r.out[j]] = r.in[j]            \* Dec o Enc = id (Enc o Dec = id follows when Dec is injective)
                          ELSE r.exc = "TranscodingException"                            \* unrepresentable: reported, nothing substituted
         [] r.d = "can" -> (r.out[1] = 1) <=> (r.in[1] \in Range(n))
         [] OTHER -> FALSE

Lost == <<-1>>      \* the converter's pending bytes are unknown (after a rejected call): its next calls are not judged
RecOk(r, i, tpc) ==
    CASE r.k = "sb" -> SbOk(r, i)
      [] tpc = Lost /\ r.d = "from" -> TRUE
      [] r.k = "probe" -> r.n = Probe(r.in)
      [] r.d = "from" -> /\ ExcOk(r)
                         /\ IF IsRaw16(r) THEN Obs(r) = Raw16(r.k, r.in, r.max)
                            ELSE Obs(r) \in DecResults(r.k, r.s, tpc, r.in, r.max)
      [] r.d = "to" -> /\ ExcOk(r)
                       /\ IF IsRaw16(r) THEN Obs(r) = Raw16To(r.k, r.in, r.max)
                          ELSE Obs(r) \in EncResults(r.k, r.s, r.in, r.max)
      [] r.d = "can" -> r.out[1] = 1                  \* every scalar value is representable in the Unicode encoding forms
      [] OTHER -> FALSE
\* bytes a stateful converter has eaten but not delivered
NextTp(r, tpc) == IF r.d = "from" /\ r.s = "icu" /\ r.k \in Kinds /\ r.exc = "" /\ r.eat \in 0..Len(r.in)
                  THEN LET b == tpc \o SubSeq(r.in, 1, r.eat) IN From(b, Dec(r.k, b, 1, <<>>, r.max).pos + 1)
                  ELSE <<>>
MaxBad == 400
BlockSize == 50
\* records i..hi in one step (a TLC state per record costs more than deciding the record)
RECURSIVE Block(_, _, _, _)
Block(i, hi, tpc, acc) ==
    IF i > hi THEN <<tpc, acc>>
    ELSE LET r == Tr[i]
             t0 == IF r.o = 1 THEN <<>> ELSE tpc          \* o = 1: first call on a new transcoder object
             ok == RecOk(r, i, t0)
         IN Block(i + 1, hi, IF t0 = Lost \/ (~ok /\ r.s = "icu" /\ r.d = "from") THEN Lost ELSE NextTp(r, t0), IF ok THEN acc ELSE Append(acc, i))
TStep == /\ l <= Len(Tr)
         /\ LET hi == Min(Len(Tr), l + BlockSize - 1)
                res == Block(l, hi, tp, <<>>) IN
            /\ l' = hi + 1
            /\ tp' = res[1]
            /\ nbad' = nbad + Len(res[2])
            /\ (res[2] # <<>> => PrintT(<<"TRACE-BAD", res[2]>>))      \* rejected records of this block
            /\ bad' = bad
         /\ UNCHANGED vars
TInit == Init /\ l = 1 /\ tp = <<>> /\ bad = <<>> /\ nbad = 0
TSpec == TInit /\ [][TStep]_tvars
Steps == (Len(Tr) + BlockSize - 1) \div BlockSize
Accepted == /\ PrintT(<<"TRACE-RESULT", IF TLCGet("stats").diameter - 1 = Steps THEN Len(Tr) ELSE (TLCGet("stats").diameter - 1) * BlockSize, Len(Tr)>>)
            /\ TLCGet("stats").diameter - 1 = Steps
\* the rejected records are reported by the last state
Report == l = Len(Tr) + 1 => PrintT(<<"TRACE-NBAD", nbad>>)
=============================================================================
