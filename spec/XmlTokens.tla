----------------------------- MODULE XmlTokens -----------------------------
(* Token-level model of XML documents (properties C02, C03).

   A document is a sequence of abstract TOKENS <<kind, name, payload>>:
     <<"XD", variant, <<>>>>          XML declaration (variant: which pseudo-attributes)
     <<"WS", "", chars>>              white space between markup (S)
     <<"CM", "", chars>>              comment with that content
     <<"PI", target, chars>>          processing instruction
     <<"DT", rootName, decls>>        DOCTYPE with internal subset; decl = <<"ent", name, "", valueTokens>>
                                                                   | <<"att", elem, attr, <<type, mode, pieces>>>>
     <<"ST", qname, attrs>>           start tag, attrs = sequence of <<attrName, pieces>>
     <<"EM", qname, attrs>>           empty-element tag
     <<"ET", qname, <<>>>>            end tag
     <<"TX", "", pieces>>             character data: pieces <<"lit",c>> | <<"cref",c>> | <<"pref",c>>
     <<"CD", "", chars>>              CDATA section
     <<"ER", name, <<>>>>             general entity reference in content
     <<"BAD", class, <<>>>>           one token per purely syntactic violation class (rendered by the harness's table)
   Attribute-value pieces may also be <<"eref", entityName>>.  Characters are SYMBOLS (strings): one printable ASCII
   character, a white-space name (SP TAB LF CR NEL LSEP) or "U<hex>" for any other code point; classification by
   the tables below.  The harness's renderer maps tokens to bytes, drawing every lexical freedom from VERIF_SEED.

   OPERATIONAL layer: a push-down machine shaped like XMLScanner::scanProlog -> scanContent (senseNextToken
   dispatch, element stack, entity/reader stack with the partial-markup checks) -> scanMiscellaneous, state `st`.
   DECLARATIVE layer: WF(s) / NSWF(s): membership in the grammar of XML 1.0 (productions [1] document, [22] prolog,
   [27] Misc, [39] element, [43] content) defined recursively over positions, plus the well-formedness constraints
   as universally quantified predicates, independent of the machine.
   TLC checks (invariant Agree) that the machine raises a fatal error exactly on the non-well-formed sequences, and
   no later than the first violating token (a non-fatal prefix always has a well-formed completion).            *)
EXTENDS Naturals, Sequences, FiniteSets, TLC
CONSTANTS Profiles,     \* set of profile names explored in this run (each profile = one token alphabet, see Alphabet)
          Bounds,       \* [profile name |-> maximal number of tokens]
          MaxDepth      \* maximal element nesting generated

\* ------------------------------------------------------------------------------------------------------------
\* characters
\* ------------------------------------------------------------------------------------------------------------
WsSyms     == {"SP", "TAB", "LF", "CR"}
\* not matched by production [2] Char.  U110000 = just above the Unicode range; U100000041 = 2^32 + 0x41 and UHUGE = 2^64 + 0x41
\* (numbers that wrap to a legal character in 32- or 64-bit arithmetic; as character references they are spelled in full)
NonChars10 == {"U0", "U1", "UB", "UFFFE", "UFFFF", "UD800", "UDFFF", "U110000", "U100000041", "UHUGE"}
IsChar(c)  == c \notin NonChars10
Predef     == {"<", "&", ">", "'", "Q"}          \* lt amp gt apos quot ("Q" stands for the double quote)

SeqSet(s) == {s[i] : i \in 1..Len(s)}
Last(s) == s[Len(s)]
Front(s) == SubSeq(s, 1, Len(s) - 1)
RECURSIVE Flat(_)
Flat(ss) == IF ss = <<>> THEN <<>> ELSE Head(ss) \o Flat(Tail(ss))

\* ------------------------------------------------------------------------------------------------------------
\* token constructors
\* ------------------------------------------------------------------------------------------------------------
Lit(c) == <<"lit", c>>
CRef(c) == <<"cref", c>>
PRef(c) == <<"pref", c>>
ERefP(n) == <<"eref", n>>
XD(v) == <<"XD", v, <<>>>>
WS(cs) == <<"WS", "", cs>>
CM(cs) == <<"CM", "", cs>>
PI(t, cs) == <<"PI", t, cs>>
DT(n, ds) == <<"DT", n, ds>>
ST(q, as) == <<"ST", q, as>>
EM(q, as) == <<"EM", q, as>>
ET(q) == <<"ET", q, <<>>>>
TX(ps) == <<"TX", "", ps>>
CD(cs) == <<"CD", "", cs>>
ER(n) == <<"ER", n, <<>>>>
BAD(k) == <<"BAD", k, <<>>>>
EntDecl(n, v) == <<"ent", n, "", v>>
AttDecl(e, a, ty, mode, ps) == <<"att", e, a, <<ty, mode, ps>>>>

\* ------------------------------------------------------------------------------------------------------------
\* lexical constraints on payloads, OPERATIONAL form: little state machines that consume one symbol at a time
\* (shaped like scanCharData's "]]>" state, scanComment's dash state, basicAttrValueScan)
\* ------------------------------------------------------------------------------------------------------------
\* scanCharData: state = number of consecutive literal ']' seen (capped at 2); returns "bad" on ]]> or a non-Char
RECURSIVE TextScan(_, _)
TextScan(ps, br) ==
  IF ps = <<>> THEN "ok"
  ELSE LET p == Head(ps) IN
       IF p[1] = "eref" THEN "bad"                                   \* references in content are ER tokens
       ELSE IF ~IsChar(p[2]) THEN "bad"
       ELSE IF p[1] = "pref" THEN (IF p[2] \in Predef THEN TextScan(Tail(ps), 0) ELSE "bad")
       ELSE IF p[1] = "cref" THEN TextScan(Tail(ps), 0)
       ELSE IF p[2] \in {"<", "&"} THEN "bad"                        \* a raw '<' or '&' is never character data
       ELSE IF p[2] = "]" THEN TextScan(Tail(ps), IF br < 2 THEN br + 1 ELSE 2)
       ELSE IF p[2] = ">" /\ br = 2 THEN "bad"
       ELSE TextScan(Tail(ps), 0)
\* scanComment: state "c" content, "d" one dash seen; "--" inside or a trailing '-' is fatal
RECURSIVE CommentScan(_, _)
CommentScan(cs, dash) ==
  IF cs = <<>> THEN (IF dash THEN "bad" ELSE "ok")
  ELSE IF ~IsChar(Head(cs)) THEN "bad"
  ELSE IF Head(cs) = "-" THEN (IF dash THEN "bad" ELSE CommentScan(Tail(cs), TRUE))
  ELSE CommentScan(Tail(cs), FALSE)
\* scanCDSection: "]]>" cannot occur inside (the renderer would end the section early)
RECURSIVE CDataScan(_, _)
CDataScan(cs, br) ==
  IF cs = <<>> THEN "ok"
  ELSE IF ~IsChar(Head(cs)) THEN "bad"
  ELSE IF Head(cs) = "]" THEN CDataScan(Tail(cs), IF br < 2 THEN br + 1 ELSE 2)
  ELSE IF Head(cs) = ">" /\ br = 2 THEN "bad"
  ELSE CDataScan(Tail(cs), 0)
\* scanPI: target "xml" in any case is reserved; data must be Chars without "?>"
ReservedTargets == {"xml", "XML", "xMl", "Xml"}
RECURSIVE PIDataScan(_, _)
PIDataScan(cs, q) ==
  IF cs = <<>> THEN "ok"
  ELSE IF ~IsChar(Head(cs)) THEN "bad"
  ELSE IF Head(cs) = ">" /\ q THEN "bad"
  ELSE PIDataScan(Tail(cs), Head(cs) = "?")
PIScan(t) == IF t[2] \in ReservedTargets THEN "bad" ELSE PIDataScan(t[3], FALSE)

\* ------------------------------------------------------------------------------------------------------------
\* DTD tables held by the machine: first declaration of a name binds (XML 1.0 4.2 / 3.3)
\* ------------------------------------------------------------------------------------------------------------
RECURSIVE FindEnt(_, _)
FindEnt(ds, n) == IF ds = <<>> THEN <<>>                                    \* <<>> = not declared
                  ELSE IF Head(ds)[1] = "ent" /\ Head(ds)[2] = n THEN <<Head(ds)[4]>>
                  ELSE FindEnt(Tail(ds), n)
IsS(t) == t[1] = "WS" \/ (t[1] = "TX" /\ t[3] # <<>> /\ \A i \in 1..Len(t[3]) : t[3][i][1] = "lit" /\ t[3][i][2] \in WsSyms)

\* replacement text of an entity as attribute-value pieces; Markup if it contains markup ('<')
Markup == <<<<"markup", "">>>>
IsMarkup(x) == x # <<>> /\ x[1][1] = "markup"
RECURSIVE EntAsPieces(_)
EntAsPieces(ts) ==
  IF ts = <<>> THEN <<>>
  ELSE LET t == Head(ts)
           r == EntAsPieces(Tail(ts)) IN
       IF IsMarkup(r) THEN r
       ELSE IF t[1] \in {"TX", "WS"} THEN (IF t[1] = "WS" THEN [i \in 1..Len(t[3]) |-> Lit(t[3][i])] ELSE t[3]) \o r
       ELSE IF t[1] = "ER" THEN <<ERefP(t[2])>> \o r
       ELSE Markup

\* basicAttrValueScan: pieces left to right; entity references push a reader (`open` = entities being expanded)
RECURSIVE AttValScan(_, _, _)
AttValScan(ps, ds, open) ==
  IF ps = <<>> THEN "ok"
  ELSE LET p == Head(ps) IN
       IF p[1] = "eref" THEN
            LET f == FindEnt(ds, p[2]) IN
            IF f = <<>> THEN "undeclared"
            ELSE IF p[2] \in open THEN "recursive"
            ELSE LET body == EntAsPieces(f[1]) IN
                 IF IsMarkup(body) THEN "lt"
                 ELSE LET r == AttValScan(body, ds, open \cup {p[2]}) IN
                      IF r # "ok" THEN r ELSE AttValScan(Tail(ps), ds, open)
       ELSE IF ~IsChar(p[2]) THEN "badchar"
       ELSE IF p[1] = "pref" THEN (IF p[2] \in Predef THEN AttValScan(Tail(ps), ds, open) ELSE "badref")
       ELSE IF p[1] = "lit" /\ p[2] \in {"<", "&"} THEN "lt"
       ELSE AttValScan(Tail(ps), ds, open)

\* names and namespaces (Namespaces in XML 1.0): a qname is "local" or "prefix:local" over the fixed sets below
Prefixes == {"p", "q"}
PrefixOf(q) == CASE q \in {"p:a", "p:b", "p:x", "p:y"} -> "p"
                 [] q \in {"q:a", "q:x"} -> "q"
                 [] q \in {"xmlns:p", "xmlns:q"} -> "xmlns"
                 [] q \in {"xml:lang", "xml:space"} -> "xml"
                 [] OTHER -> ""
LocalOf(q) == CASE q \in {"p:a", "q:a"} -> "a"
                [] q = "p:b" -> "b"
                [] q \in {"p:x", "q:x"} -> "x"
                [] q = "p:y" -> "y"
                [] q = "xmlns:p" -> "p"
                [] q = "xmlns:q" -> "q"
                [] q = "xml:lang" -> "lang"
                [] q = "xml:space" -> "space"
                [] OTHER -> q
\* value of a namespace declaration attribute as a URI symbol: the concatenation test is only "empty or not" and identity
RECURSIVE PiecesChars(_)
PiecesChars(ps) == IF ps = <<>> THEN <<>> ELSE <<Head(ps)[2]>> \o PiecesChars(Tail(ps))

\* rawAttrScan + duplicate check + value scan of one tag; returns "ok" or an error class
RECURSIVE AttrsScan(_, _, _)
AttrsScan(as, seen, ds) ==
  IF as = <<>> THEN "ok"
  ELSE LET a == Head(as) IN
       IF a[1] \in seen THEN "dup-attr"
       ELSE LET r == AttValScan(a[2], ds, {}) IN
            IF r # "ok" THEN r ELSE AttrsScan(Tail(as), seen \cup {a[1]}, ds)

\* namespace bindings declared by a tag's own attributes: sequence of <<prefix, uriChars>> in attribute order
RECURSIVE NsDecls(_)
NsDecls(as) == IF as = <<>> THEN <<>>
               ELSE LET a == Head(as) IN
                    (IF PrefixOf(a[1]) = "xmlns" THEN <<<<LocalOf(a[1]), PiecesChars(a[2])>>>>
                     ELSE IF a[1] = "xmlns" THEN <<<<"", PiecesChars(a[2])>>>> ELSE <<>>) \o NsDecls(Tail(as))
\* scope = sequence of <<prefix, uri>>, innermost LAST; lookup from the end
RECURSIVE Lookup(_, _)
Lookup(scope, p) == IF scope = <<>> THEN <<"unbound">>
                    ELSE IF Last(scope)[1] = p THEN Last(scope)[2] ELSE Lookup(Front(scope), p)
UriOf(scope, q, isAttr) ==
  LET p == PrefixOf(q) IN
  IF p = "xml" THEN <<"xml-ns">>
  ELSE IF p = "xmlns" \/ q = "xmlns" THEN <<"xmlns-ns">>
  ELSE IF p = "" THEN (IF isAttr THEN <<>> ELSE LET u == Lookup(scope, "") IN IF u = <<"unbound">> THEN <<>> ELSE u)
  ELSE Lookup(scope, p)
\* namespace constraints of one tag given the scope INCLUDING its own declarations
NsTagBad(scope, q, as) ==
  \/ UriOf(scope, q, FALSE) = <<"unbound">>
  \/ \E i \in 1..Len(as) : UriOf(scope, as[i][1], TRUE) = <<"unbound">>
  \/ \E i \in 1..Len(as) : PrefixOf(as[i][1]) = "xmlns" /\ PiecesChars(as[i][2]) = <<>>     \* xmlns:p="" is not allowed in NS 1.0
  \/ \E i, j \in 1..Len(as) : i < j /\ LocalOf(as[i][1]) = LocalOf(as[j][1])
                               /\ PrefixOf(as[i][1]) \notin {"xmlns"} /\ PrefixOf(as[j][1]) \notin {"xmlns"}
                               /\ as[i][1] # "xmlns" /\ as[j][1] # "xmlns"
                               /\ UriOf(scope, as[i][1], TRUE) = UriOf(scope, as[j][1], TRUE)

\* ------------------------------------------------------------------------------------------------------------
\* OPERATIONAL layer, reported content (property C03): scanning functions that return <<characters, line breaks>>
\* ------------------------------------------------------------------------------------------------------------
AsLit(cs) == [i \in 1..Len(cs) |-> Lit(cs[i])]
\* XMLReader::handleEOL while characters are read: state cr = "the previous literal character was CR"
RECURSIVE ScanText(_, _)
ScanText(ps, cr) ==
  IF ps = <<>> THEN <<<<>>, 0>>
  ELSE LET p == Head(ps) IN
       IF p[1] = "lit" /\ p[2] = "CR" THEN LET r == ScanText(Tail(ps), TRUE) IN <<<<"LF">> \o r[1], r[2] + 1>>
       ELSE IF p[1] = "lit" /\ p[2] = "LF" THEN
            (IF cr THEN ScanText(Tail(ps), FALSE) ELSE LET r == ScanText(Tail(ps), FALSE) IN <<<<"LF">> \o r[1], r[2] + 1>>)
       ELSE LET r == ScanText(Tail(ps), FALSE) IN <<<<p[2]>> \o r[1], r[2]>>
\* replacement text of an internal entity: character references of the literal were expanded when it was declared
ReplPieces(ps) == [i \in 1..Len(ps) |-> IF ps[i][1] = "cref" THEN Lit(ps[i][2]) ELSE ps[i]]
\* basicAttrValueScan: literal white space (after line-end handling) becomes SP, references give the character itself,
\* entity references are expanded with the same rule applied to their replacement text (3.3.3)
RECURSIVE ScanAttVal(_, _, _)
ScanAttVal(ps, ds, cr) ==
  IF ps = <<>> THEN <<<<>>, 0>>
  ELSE LET p == Head(ps) IN
       IF p[1] = "eref" THEN
            LET f == FindEnt(ds, p[2])
                body == IF f = <<>> THEN <<>> ELSE EntAsPieces(f[1])
                e == IF IsMarkup(body) THEN <<<<>>, 0>> ELSE ScanAttVal(ReplPieces(body), ds, FALSE)
                r == ScanAttVal(Tail(ps), ds, FALSE) IN
            <<e[1] \o r[1], r[2]>>
       ELSE IF p[1] = "lit" /\ p[2] = "CR" THEN LET r == ScanAttVal(Tail(ps), ds, TRUE) IN <<<<"SP">> \o r[1], r[2] + 1>>
       ELSE IF p[1] = "lit" /\ p[2] = "LF" THEN
            (IF cr THEN ScanAttVal(Tail(ps), ds, FALSE) ELSE LET r == ScanAttVal(Tail(ps), ds, FALSE) IN <<<<"SP">> \o r[1], r[2] + 1>>)
       ELSE IF p[1] = "lit" /\ p[2] \in WsSyms THEN LET r == ScanAttVal(Tail(ps), ds, FALSE) IN <<<<"SP">> \o r[1], r[2]>>
       ELSE LET r == ScanAttVal(Tail(ps), ds, FALSE) IN <<<<p[2]>> \o r[1], r[2]>>
\* normalizeAttValue for tokenized types: state = "nothing emitted yet / a space is pending"
RECURSIVE CollapseScan(_, _, _)
CollapseScan(cs, started, pending) ==
  IF cs = <<>> THEN <<>>
  ELSE IF Head(cs) = "SP" THEN CollapseScan(Tail(cs), started, started)
  ELSE (IF pending THEN <<"SP">> ELSE <<>>) \o <<Head(cs)>> \o CollapseScan(Tail(cs), TRUE, FALSE)
\* ATTLIST declarations: the first declaration of (element, attribute) binds
RECURSIVE FindAtt(_, _, _)
FindAtt(ds, e, a) == IF ds = <<>> THEN <<>>
                     ELSE IF Head(ds)[1] = "att" /\ Head(ds)[2] = e /\ Head(ds)[3] = a THEN <<Head(ds)[4]>>
                     ELSE FindAtt(Tail(ds), e, a)
AttType(ds, e, a) == LET f == FindAtt(ds, e, a) IN IF f = <<>> THEN "CDATA" ELSE f[1][1]
TypeNorm(cs, ty) == IF ty = "CDATA" THEN cs ELSE CollapseScan(cs, FALSE, FALSE)
\* attribute events <<name, value, specified, type, uri>> of one tag: the specified ones in document order ...
RECURSIVE ScanAttrEvents(_, _, _, _)
ScanAttrEvents(as, e, ds, scope) ==
  IF as = <<>> THEN <<<<>>, 0>>
  ELSE LET a == Head(as)
           v == ScanAttVal(a[2], ds, FALSE)
           ty == AttType(ds, e, a[1])
           r == ScanAttrEvents(Tail(as), e, ds, scope) IN
       <<<<<<a[1], TypeNorm(v[1], ty), TRUE, ty, UriOf(scope, a[1], TRUE)>>>> \o r[1], v[2] + r[2]>>
\* ... then the defaults of the declarations not specified (XMLScanner: faultInAttr / buildAttList)
RECURSIVE ScanDefaults(_, _, _, _, _)
ScanDefaults(rest, ds, e, have, scope) ==
  IF rest = <<>> THEN <<>>
  ELSE LET d == Head(rest) IN
       IF d[1] = "att" /\ d[2] = e /\ d[3] \notin have
       THEN (IF d[4][2] \in {"", "#FIXED"}
             THEN <<<<d[3], TypeNorm(ScanAttVal(d[4][3], ds, FALSE)[1], d[4][1]), FALSE, d[4][1], UriOf(scope, d[3], TRUE)>>>>
             ELSE <<>>) \o ScanDefaults(Tail(rest), ds, e, have \cup {d[3]}, scope)
       ELSE ScanDefaults(Tail(rest), ds, e, have, scope)
\* event constructors: uniform shape <<kind, name, characters, attributes, flag, line>>
Ev(k, n, cs, as, f, l) == <<k, n, cs, as, f, l>>
\* append to the event list; adjacent character events with the same CDATA flag are one event (canonical form)
AddEv(out, e) ==
  IF e[1] = "ch" /\ e[3] = <<>> THEN out
  ELSE IF e[1] = "ch" /\ out # <<>> /\ Last(out)[1] = "ch" /\ Last(out)[5] = e[5]
       THEN Append(Front(out), Ev("ch", "", Last(out)[3] \o e[3], <<>>, e[5], 0))
  ELSE Append(out, e)
RECURSIVE EntNames(_, _)
EntNames(ds, have) == IF ds = <<>> THEN <<>>
                      ELSE IF Head(ds)[1] = "ent" /\ Head(ds)[2] \notin have
                           THEN <<Head(ds)[2]>> \o EntNames(Tail(ds), have \cup {Head(ds)[2]})
                           ELSE EntNames(Tail(ds), have)

\* ------------------------------------------------------------------------------------------------------------
\* OPERATIONAL layer: the machine
\* ------------------------------------------------------------------------------------------------------------
St0 == [phase |-> "prolog", first |-> TRUE, sawDT |-> FALSE, stack |-> <<>>, fatal |-> FALSE, nsfatal |-> FALSE,
        why |-> "", decls |-> <<>>, scopes |-> <<>>, out |-> <<>>, line |-> 1]
\* stack: names of the open elements; scopes: per open element the namespace bindings in scope inside it
Fatal(st, w) == IF st.fatal THEN st ELSE [st EXCEPT !.fatal = TRUE, !.why = w]
NsFatal(st) == [st EXCEPT !.nsfatal = TRUE]

\* scanStartTag for ST and EM
StartTag(st, t) ==
  LET r == AttrsScan(t[3], {}, st.decls)
      own == NsDecls(t[3])
      bind == (IF st.scopes = <<>> THEN <<>> ELSE Last(st.scopes)) \o own
      s1 == IF NsTagBad(bind, t[2], t[3]) THEN NsFatal(st) ELSE st
      ae == ScanAttrEvents(t[3], t[2], st.decls, bind)
      dfl == ScanDefaults(st.decls, st.decls, t[2], {t[3][i][1] : i \in 1..Len(t[3])}, bind)
      ln == st.line + ae[2]
      se == Ev("se", t[2], UriOf(bind, t[2], FALSE), ae[1] \o dfl, FALSE, ln)
      s2 == [s1 EXCEPT !.line = ln, !.out = AddEv(@, se)]
  IN IF r # "ok" THEN Fatal(st, r)
     ELSE IF t[1] = "ST" THEN [s2 EXCEPT !.stack = Append(@, t[2]), !.scopes = Append(@, bind), !.phase = "content"]
     ELSE LET s3 == [s2 EXCEPT !.out = AddEv(@, Ev("ee", t[2], <<>>, <<>>, FALSE, 0))] IN
          IF st.phase = "prolog" THEN [s3 EXCEPT !.phase = "misc"] ELSE s3

\* report character data / a comment / a PI and count its line breaks
Chars(st, ps, cdata) == LET r == ScanText(ps, FALSE) IN [st EXCEPT !.line = @ + r[2], !.out = AddEv(@, Ev("ch", "", r[1], <<>>, cdata, 0))]
Comment(st, cs) == LET r == ScanText(AsLit(cs), FALSE) IN [st EXCEPT !.line = @ + r[2], !.out = AddEv(@, Ev("cm", "", r[1], <<>>, FALSE, 0))]
\* scanPI skips the white space after the target before it collects the data
RECURSIVE SkipSpaces(_)
SkipSpaces(cs) == IF cs # <<>> /\ Head(cs) \in WsSyms THEN SkipSpaces(Tail(cs)) ELSE cs
ProcInstr(st, t) == LET r == ScanText(AsLit(t[3]), FALSE) IN
                    [st EXCEPT !.line = @ + r[2], !.out = AddEv(@, Ev("pi", t[2], SkipSpaces(r[1]), <<>>, FALSE, 0))]
Space(st, t) == LET r == ScanText(IF t[1] = "WS" THEN AsLit(t[3]) ELSE t[3], FALSE) IN [st EXCEPT !.line = @ + r[2]]
RECURSIVE ContentTok(_, _, _, _), RunEnt(_, _, _, _)
\* one token inside scanContent; open = entities being expanded, floor = element depth at the entry of the
\* innermost entity (an end tag may not close an element opened outside that entity: PartialMarkupInEntity)
ContentTok(st, t, open, floor) ==
  IF st.fatal THEN st
  ELSE IF t[1] = "BAD" THEN Fatal(st, t[2])
  ELSE IF t[1] = "TX" THEN (IF TextScan(t[3], 0) = "ok" THEN Chars(st, t[3], FALSE) ELSE Fatal(st, "text"))
  ELSE IF t[1] = "WS" THEN Chars(st, AsLit(t[3]), FALSE)
  ELSE IF t[1] = "CD" THEN (IF CDataScan(t[3], 0) = "ok" THEN Chars(st, AsLit(t[3]), TRUE) ELSE Fatal(st, "cdata"))
  ELSE IF t[1] = "CM" THEN (IF CommentScan(t[3], FALSE) = "ok" THEN Comment(st, t[3]) ELSE Fatal(st, "comment"))
  ELSE IF t[1] = "PI" THEN (IF PIScan(t) = "ok" THEN ProcInstr(st, t) ELSE Fatal(st, "pi"))
  ELSE IF t[1] \in {"ST", "EM"} THEN StartTag(st, t)
  ELSE IF t[1] = "ET" THEN
       IF Len(st.stack) <= floor THEN Fatal(st, "partial-markup")
       ELSE IF Last(st.stack) # t[2] THEN Fatal(st, "mismatched-end-tag")
       ELSE [st EXCEPT !.stack = Front(@), !.scopes = Front(@), !.phase = IF Len(st.stack) = 1 THEN "misc" ELSE "content",
                       !.out = AddEv(@, Ev("ee", t[2], <<>>, <<>>, FALSE, 0))]
  ELSE IF t[1] = "ER" THEN
       LET f == FindEnt(st.decls, t[2]) IN
       IF f = <<>> THEN Fatal(st, "undeclared-entity")
       ELSE IF t[2] \in open THEN Fatal(st, "recursive-entity")
       ELSE LET d == Len(st.stack)
                s0 == [st EXCEPT !.out = AddEv(@, Ev("er+", t[2], <<>>, <<>>, FALSE, 0))]
                s1 == RunEnt(s0, f[1], open \cup {t[2]}, d) IN
            IF s1.fatal THEN s1
            ELSE IF Len(s1.stack) # d THEN Fatal(s1, "partial-markup")
            ELSE [s1 EXCEPT !.line = st.line, !.out = AddEv(@, Ev("er-", t[2], <<>>, <<>>, FALSE, 0))]
  ELSE IF t[1] = "XD" THEN Fatal(st, "xmldecl-not-first")
  ELSE Fatal(st, "doctype-in-content")                                      \* DT
RunEnt(st, ts, open, floor) ==
  IF ts = <<>> \/ st.fatal THEN st ELSE RunEnt(ContentTok(st, Head(ts), open, floor), Tail(ts), open, floor)

\* scanProlog
PrologTok(st, t) ==
  IF t[1] = "BAD" THEN Fatal(st, t[2])
  ELSE IF t[1] = "XD" THEN (IF st.first THEN st ELSE Fatal(st, "xmldecl-not-first"))
  ELSE IF IsS(t) THEN Space(st, t)
  ELSE IF t[1] = "CM" THEN (IF CommentScan(t[3], FALSE) = "ok" THEN Comment(st, t[3]) ELSE Fatal(st, "comment"))
  ELSE IF t[1] = "PI" THEN (IF PIScan(t) = "ok" THEN ProcInstr(st, t) ELSE Fatal(st, "pi"))
  ELSE IF t[1] = "DT" THEN (IF st.sawDT THEN Fatal(st, "dup-doctype")
                            ELSE [st EXCEPT !.sawDT = TRUE, !.decls = t[3],
                                            !.out = AddEv(@, Ev("dt", t[2], <<>>, EntNames(t[3], {}), FALSE, 0))])
  ELSE IF t[1] \in {"ST", "EM"} THEN StartTag(st, t)
  ELSE Fatal(st, "content-in-prolog")                                       \* TX CD ET ER before the root
\* scanMiscellaneous
MiscTok(st, t) ==
  IF t[1] = "BAD" THEN Fatal(st, t[2])
  ELSE IF IsS(t) THEN Space(st, t)
  ELSE IF t[1] = "CM" THEN (IF CommentScan(t[3], FALSE) = "ok" THEN Comment(st, t[3]) ELSE Fatal(st, "comment"))
  ELSE IF t[1] = "PI" THEN (IF PIScan(t) = "ok" THEN ProcInstr(st, t) ELSE Fatal(st, "pi"))
  ELSE IF t[1] = "XD" THEN Fatal(st, "xmldecl-not-first")
  ELSE Fatal(st, "content-after-root")

Delta(st, t) ==
  LET s1 == CASE st.phase = "prolog" -> PrologTok(st, t)
              [] st.phase = "content" -> ContentTok(st, t, {}, 0)
              [] st.phase = "misc" -> MiscTok(st, t)
  IN [s1 EXCEPT !.first = FALSE]
DeltaEof(st) ==
  LET s1 == IF st.phase = "misc" THEN st
            ELSE IF st.phase = "prolog" THEN Fatal(st, "no-root") ELSE Fatal(st, "eof-in-element")
  IN [s1 EXCEPT !.phase = "done"]
RECURSIVE RunAll(_, _)
RunAll(st, ts) == IF ts = <<>> THEN st ELSE RunAll(Delta(st, Head(ts)), Tail(ts))
Accepts(ts) == ~DeltaEof(RunAll(St0, ts)).fatal

\* ------------------------------------------------------------------------------------------------------------
\* DECLARATIVE layer: grammar membership + well-formedness constraints
\* ------------------------------------------------------------------------------------------------------------
\* lexical constraints stated over whole payloads (no scanning state)
NoSub3(cs, a, b, c) == ~\E i \in 1..Len(cs) : i + 2 <= Len(cs) /\ cs[i] = a /\ cs[i + 1] = b /\ cs[i + 2] = c
TextOK(ps) == /\ \A i \in 1..Len(ps) : /\ ps[i][1] \in {"lit", "cref", "pref"}
                                        /\ IsChar(ps[i][2])
                                        /\ (ps[i][1] = "pref" => ps[i][2] \in Predef)
                                        /\ (ps[i][1] = "lit" => ps[i][2] \notin {"<", "&"})
              /\ ~\E i \in 1..Len(ps) : /\ i + 2 <= Len(ps)
                                        /\ ps[i] = Lit("]") /\ ps[i + 1] = Lit("]") /\ ps[i + 2] = Lit(">")
CommentOK(cs) == /\ \A i \in 1..Len(cs) : IsChar(cs[i])
                 /\ ~\E i \in 1..Len(cs) : cs[i] = "-" /\ (i = Len(cs) \/ cs[i + 1] = "-")
CDataOK(cs) == (\A i \in 1..Len(cs) : IsChar(cs[i])) /\ NoSub3(cs, "]", "]", ">")
PIOK(t) == /\ t[2] \notin ReservedTargets
           /\ \A i \in 1..Len(t[3]) : IsChar(t[3][i])
           /\ ~\E i \in 1..Len(t[3]) : i < Len(t[3]) /\ t[3][i] = "?" /\ t[3][i + 1] = ">"

DeclOf(s) == LET ds == {i \in 1..Len(s) : s[i][1] = "DT"} IN
             IF ds = {} THEN <<>> ELSE s[CHOOSE i \in ds : \A j \in ds : i <= j][3]
Declared(ds, n) == \E i \in 1..Len(ds) : ds[i][1] = "ent" /\ ds[i][2] = n
ValueOf(ds, n) == ds[CHOOSE i \in 1..Len(ds) : ds[i][1] = "ent" /\ ds[i][2] = n
                                               /\ \A j \in 1..Len(ds) : (ds[j][1] = "ent" /\ ds[j][2] = n) => i <= j][4]

\* the set of positions j such that s[i..j-1] is one element (production [39]); Cont(k) = positions reachable from k
\* by content items (production [43]); entity references count as items here, their own constraints are separate
RECURSIVE ElemEnd(_, _)
ElemEnd(s, i) ==
  IF i > Len(s) THEN {}
  ELSE IF s[i][1] = "EM" THEN {i + 1}
  ELSE IF s[i][1] # "ST" THEN {}
  ELSE LET RECURSIVE Cont(_)
           Cont(k) == {k} \cup (IF k > Len(s) THEN {}
                                ELSE IF s[k][1] \in {"TX", "WS", "CD", "CM", "PI", "ER"} THEN Cont(k + 1)
                                ELSE UNION {Cont(j) : j \in ElemEnd(s, k)})
       IN {k + 1 : k \in {k \in Cont(i + 1) : k <= Len(s) /\ s[k] = ET(s[i][2])}}
\* s (an entity's replacement) matches production content
RECURSIVE ContentEnd(_, _)
ContentEnd(s, k) == {k} \cup (IF k > Len(s) THEN {}
                              ELSE IF s[k][1] \in {"TX", "WS", "CD", "CM", "PI", "ER"} THEN ContentEnd(s, k + 1)
                              ELSE UNION {ContentEnd(s, j) : j \in ElemEnd(s, k)})
IsContent(s) == (Len(s) + 1) \in ContentEnd(s, 1)

\* entity constraints: WFC Entity Declared, No Recursion, Well-Formed Parsed Entities (4.3.2), for an entity
\* referenced in content (inAttr = FALSE) or in an attribute value (WFC No < in Attribute Values)
RECURSIVE EntOK(_, _, _, _), PayloadOK(_, _, _), AttValOK(_, _, _)
AttValOK(ps, ds, seen) ==
  \A i \in 1..Len(ps) :
     IF ps[i][1] = "eref" THEN EntOK(ps[i][2], ds, seen, TRUE)
     ELSE /\ IsChar(ps[i][2])
          /\ (ps[i][1] = "pref" => ps[i][2] \in Predef)
          /\ (ps[i][1] = "lit" => ps[i][2] \notin {"<", "&"})
\* token-local constraints of one token (everything except element structure)
PayloadOK(t, ds, seen) ==
  CASE t[1] = "TX" -> TextOK(t[3])
    [] t[1] = "CD" -> CDataOK(t[3])
    [] t[1] = "CM" -> CommentOK(t[3])
    [] t[1] = "PI" -> PIOK(t)
    [] t[1] \in {"ST", "EM"} -> /\ \A i, j \in 1..Len(t[3]) : i # j => t[3][i][1] # t[3][j][1]     \* WFC Unique Att Spec
                                /\ \A i \in 1..Len(t[3]) : AttValOK(t[3][i][2], ds, seen)
    [] t[1] = "ER" -> EntOK(t[2], ds, seen, FALSE)
    [] t[1] = "BAD" -> FALSE
    [] OTHER -> TRUE
EntOK(n, ds, seen, inAttr) ==
  /\ Declared(ds, n)
  /\ n \notin seen
  /\ LET v == ValueOf(ds, n) IN
     /\ \A i \in 1..Len(v) : PayloadOK(v[i], ds, seen \cup {n})
     /\ IF inAttr THEN \A i \in 1..Len(v) : v[i][1] \in {"TX", "WS", "ER"}
        ELSE IsContent(v) /\ \A i \in 1..Len(v) : v[i][1] \notin {"XD", "DT"}

Misc(t) == t[1] \in {"CM", "PI"} \/ IsS(t)
\* [1] document ::= prolog element Misc*     [22] prolog ::= XMLDecl? Misc* (doctypedecl Misc*)?
WF(s) ==
  /\ \A k \in 1..Len(s) : PayloadOK(s[k], DeclOf(s), {})
  /\ \E i \in 1..Len(s) :
        /\ s[i][1] \in {"ST", "EM"}
        /\ \A k \in 1..(i - 1) : \/ Misc(s[k])
                                 \/ (s[k][1] = "XD" /\ k = 1)
                                 \/ (s[k][1] = "DT" /\ \A m \in 1..(k - 1) : s[m][1] # "DT")
        /\ \E j \in ElemEnd(s, i) : \A k \in j..Len(s) : Misc(s[k])

\* namespace constraints (ns-wf documents): every prefix used in a tag is bound in scope, xmlns:p="" is not used,
\* no two attributes of a tag have the same expanded name.  Scope of position i = declarations of the open
\* elements enclosing i (outermost first) followed by the tag's own.
Encloses(s, j, i) == s[j][1] = "ST" /\ j < i /\ \A e \in ElemEnd(s, j) : e > i
RECURSIVE ScopeAt(_, _, _)
ScopeAt(s, i, j) == IF j > i THEN <<>>
                    ELSE (IF j = i \/ Encloses(s, j, i) THEN NsDecls(s[j][3]) ELSE <<>>) \o ScopeAt(s, i, j + 1)
NSWF(s) == WF(s) /\ \A i \in 1..Len(s) : s[i][1] \in {"ST", "EM"} => ~NsTagBad(ScopeAt(s, i, 1), s[i][2], s[i][3])

\* ------------------------------------------------------------------------------------------------------------
\* DECLARATIVE layer, reported content (property C03): Infoset(s) = the canonical event list the recommendation
\* prescribes for a well-formed token sequence, defined by position (no scanning state):
\*   2.11  line ends: a literal LF directly after a literal CR disappears, every other literal CR is an LF
\*   3.3.3 attribute values: literal white space -> SP, references give their character, entity replacement text is
\*         included with the same rule; tokenized types: no leading/trailing SP, no SP after SP
\*   3.3.2 defaults of the first ATTLIST declaration of (element, attribute) for attributes not specified
\*   4.4   internal entities in content are included (between er+/er- marks), 4.5 replacement text
\*   line of a start tag = 1 + number of line ends up to the end of the tag
\* ------------------------------------------------------------------------------------------------------------
EolDropped(ps, i) == ps[i] = Lit("LF") /\ i > 1 /\ ps[i - 1] = Lit("CR")
RECURSIVE TextChars(_, _)
TextChars(ps, i) == IF i > Len(ps) THEN <<>>
                    ELSE (IF EolDropped(ps, i) THEN <<>> ELSE IF ps[i] = Lit("CR") THEN <<"LF">> ELSE <<ps[i][2]>>) \o TextChars(ps, i + 1)
LineEnds(ps) == Cardinality({i \in 1..Len(ps) : ps[i] = Lit("CR") \/ (ps[i] = Lit("LF") /\ ~EolDropped(ps, i))})
RECURSIVE AttChars(_, _, _)
AttChars(ps, ds, i) ==
  IF i > Len(ps) THEN <<>>
  ELSE (CASE ps[i][1] = "eref" -> AttChars(ReplPieces(EntAsPieces(ValueOf(ds, ps[i][2]))), ds, 1)
          [] ps[i][1] = "lit" -> (IF EolDropped(ps, i) THEN <<>> ELSE IF ps[i][2] \in WsSyms THEN <<"SP">> ELSE <<ps[i][2]>>)
          [] OTHER -> <<ps[i][2]>>) \o AttChars(ps, ds, i + 1)
RECURSIVE KeepIdx(_, _, _)
KeepIdx(cs, keep, i) == IF i > Len(cs) THEN <<>> ELSE (IF i \in keep THEN <<cs[i]>> ELSE <<>>) \o KeepIdx(cs, keep, i + 1)
Collapsed(cs) == KeepIdx(cs, {i \in 1..Len(cs) : cs[i] # "SP" \/ (i > 1 /\ cs[i - 1] # "SP" /\ \E j \in (i + 1)..Len(cs) : cs[j] # "SP")}, 1)
DeclType(ds, e, a) == IF \E k \in 1..Len(ds) : ds[k][1] = "att" /\ ds[k][2] = e /\ ds[k][3] = a
                      THEN ds[CHOOSE k \in 1..Len(ds) : ds[k][1] = "att" /\ ds[k][2] = e /\ ds[k][3] = a
                                   /\ \A m \in 1..(k - 1) : ~(ds[m][1] = "att" /\ ds[m][2] = e /\ ds[m][3] = a)][4][1]
                      ELSE "CDATA"
AttValue(ps, ds, ty) == IF ty = "CDATA" THEN AttChars(ps, ds, 1) ELSE Collapsed(AttChars(ps, ds, 1))
RECURSIVE DefaultEvents(_, _, _, _, _)
DefaultEvents(ds, k, e, specified, scope) ==
  IF k > Len(ds) THEN <<>>
  ELSE (IF /\ ds[k][1] = "att" /\ ds[k][2] = e /\ ds[k][3] \notin specified
           /\ \A m \in 1..(k - 1) : ~(ds[m][1] = "att" /\ ds[m][2] = e /\ ds[m][3] = ds[k][3])
           /\ ds[k][4][2] \in {"", "#FIXED"}
        THEN <<<<ds[k][3], AttValue(ds[k][4][3], ds, ds[k][4][1]), FALSE, ds[k][4][1], UriOf(scope, ds[k][3], TRUE)>>>>
        ELSE <<>>) \o DefaultEvents(ds, k + 1, e, specified, scope)
TagBreaks(t) == LET RECURSIVE Sum(_)
                    Sum(i) == IF i > Len(t[3]) THEN 0 ELSE LineEnds(t[3][i][2]) + Sum(i + 1)
                IN Sum(1)
Breaks(t) == CASE t[1] = "TX" -> LineEnds(t[3])
               [] t[1] \in {"WS", "CM", "CD", "PI"} -> LineEnds(AsLit(t[3]))
               [] t[1] \in {"ST", "EM"} -> TagBreaks(t)
               [] OTHER -> 0
RECURSIVE LineAt(_, _)
LineAt(s, i) == IF i = 0 THEN 1 ELSE LineAt(s, i - 1) + Breaks(s[i])
\* events of one token; scope = namespace bindings in scope of the token WITHOUT a tag's own declarations
RECURSIVE TokEvents(_, _, _, _), SeqEvents(_, _, _, _, _)
TokEvents(t, ds, scope, line) ==
  CASE t[1] = "TX" -> <<Ev("ch", "", TextChars(t[3], 1), <<>>, FALSE, 0)>>
    [] t[1] = "WS" -> <<Ev("ch", "", TextChars(AsLit(t[3]), 1), <<>>, FALSE, 0)>>
    [] t[1] = "CD" -> <<Ev("ch", "", TextChars(AsLit(t[3]), 1), <<>>, TRUE, 0)>>
    [] t[1] = "CM" -> <<Ev("cm", "", TextChars(AsLit(t[3]), 1), <<>>, FALSE, 0)>>
    [] t[1] = "PI" -> LET d == TextChars(AsLit(t[3]), 1)                     \* [16] PI ::= '<?' PITarget (S data)? '?>' : data starts after S
                          first == {i \in 1..Len(d) : d[i] \notin {"SP", "TAB", "LF"}} IN
                      <<Ev("pi", t[2], IF first = {} THEN <<>> ELSE SubSeq(d, CHOOSE i \in first : \A j \in first : i <= j, Len(d)), <<>>, FALSE, 0)>>
    [] t[1] = "DT" -> <<Ev("dt", t[2], <<>>, EntNames(t[3], {}), FALSE, 0)>>
    [] t[1] \in {"ST", "EM"} ->
         LET sc == scope \o NsDecls(t[3])
             spec == [i \in 1..Len(t[3]) |-> <<t[3][i][1], AttValue(t[3][i][2], ds, DeclType(ds, t[2], t[3][i][1])), TRUE,
                                                DeclType(ds, t[2], t[3][i][1]), UriOf(sc, t[3][i][1], TRUE)>>]
             dfl == DefaultEvents(ds, 1, t[2], {t[3][i][1] : i \in 1..Len(t[3])}, sc)
         IN <<Ev("se", t[2], UriOf(sc, t[2], FALSE), spec \o dfl, FALSE, line)>>
            \o (IF t[1] = "EM" THEN <<Ev("ee", t[2], <<>>, <<>>, FALSE, 0)>> ELSE <<>>)
    [] t[1] = "ET" -> <<Ev("ee", t[2], <<>>, <<>>, FALSE, 0)>>
    [] t[1] = "ER" -> <<Ev("er+", t[2], <<>>, <<>>, FALSE, 0)>> \o SeqEvents(ValueOf(ds, t[2]), 1, ds, scope, line)
                      \o <<Ev("er-", t[2], <<>>, <<>>, FALSE, 0)>>
    [] OTHER -> <<>>
\* tokens of an entity's replacement: the position reported is that of the reference, the scope that of the reference
SeqEvents(v, i, ds, scope, line) == IF i > Len(v) THEN <<>> ELSE TokEvents(v[i], ds, scope, line) \o SeqEvents(v, i + 1, ds, scope, line)
RECURSIVE OuterScope(_, _, _)
OuterScope(s, i, j) == IF j >= i THEN <<>> ELSE (IF Encloses(s, j, i) THEN NsDecls(s[j][3]) ELSE <<>>) \o OuterScope(s, i, j + 1)
InContent(s, i) == \E j \in 1..(i - 1) : Encloses(s, j, i)
RECURSIVE DocEvents(_, _)
DocEvents(s, i) ==
  IF i > Len(s) THEN <<>>
  ELSE (IF s[i][1] \in {"TX", "WS"} /\ ~InContent(s, i) THEN <<>>                           \* S outside the root element is not content
        ELSE TokEvents(s[i], DeclOf(s), OuterScope(s, i, 1), LineAt(s, i))) \o DocEvents(s, i + 1)
RECURSIVE Canon(_, _)
Canon(es, acc) == IF es = <<>> THEN acc ELSE Canon(Tail(es), AddEv(acc, Head(es)))
Infoset(s) == Canon(DocEvents(s, 1), <<>>)

\* ------------------------------------------------------------------------------------------------------------
\* alphabets (profiles)
\* ------------------------------------------------------------------------------------------------------------
SeqsLen(S, lo, hi) == UNION {[1..k -> S] : k \in lo..hi}
BadCommon == {BAD(k) : k \in {"lt-space", "eof-in-stag", "eof-in-etag", "eof-in-comment", "eof-in-pi"}}
AlphaStructure ==
  {ST(n, <<>>) : n \in {"a", "b"}} \cup {EM(n, <<>>) : n \in {"a", "b"}} \cup {ET(n) : n \in {"a", "b"}}
  \cup {TX(<<Lit("x")>>), CM(<<"x">>), WS(<<"SP">>), PI("t", <<>>)}
  \cup {BAD(k) : k \in {"lt-space", "etag-space", "eof-in-stag", "eof-in-etag", "name-start", "etag-attrs", "trunc-utf8"}}
AlphaProlog ==
  {XD(v) : v \in {"v", "ve", "vs", "ves"}} \cup {WS(<<"LF">>), TX(<<Lit("SP")>>), TX(<<CRef("SP")>>), CM(<<"x">>), PI("t", <<"d">>),
   PI("xml-s", <<>>), PI("xml", <<>>), PI("XML", <<"d">>), DT("a", <<>>), DT("b", <<>>), EM("a", <<>>), ST("a", <<>>), ET("a"),
   TX(<<Lit("x")>>), CD(<<"x">>)}
  \cup {BAD(k) : k \in {"xd-noversion", "xd-order", "xd-badsa", "xd-unterminated", "xd-case", "doctype-nospace", "doctype-lower",
                        "eof-in-doctype", "eof-in-comment", "eof-in-pi", "bang-unknown", "trunc-utf8", "utf8-ff", "utf8-cont",
                        "utf8-overlong", "pi-nospace", "comment-3dash"}}
\* byte sequences that are illegal in the document's encoding (UTF-8): enc-<context>-<variant>; context tx = character data,
\* att = attribute value, cm = comment; variant cN-K = N-byte sequence whose K-th byte is not a continuation byte, overN = overlong
\* N-byte form, surr = encoded surrogate, above = beyond U+10FFFF (byte tables in the renderer)
EncodingBad == {"enc-tx-c2-2", "enc-tx-c3-2", "enc-tx-c3-3", "enc-tx-c4-2", "enc-tx-c4-3", "enc-tx-c4-4", "enc-tx-over2", "enc-tx-over3", "enc-tx-over4", "enc-tx-surr", "enc-tx-above", "enc-att-c2-2", "enc-att-c3-2", "enc-att-c3-3", "enc-att-c4-2", "enc-att-c4-3", "enc-att-c4-4", "enc-att-over2", "enc-att-over3", "enc-att-over4", "enc-att-surr", "enc-att-above", "enc-cm-c2-2", "enc-cm-c3-2", "enc-cm-c3-3", "enc-cm-c4-2", "enc-cm-c4-3", "enc-cm-c4-4", "enc-cm-over2", "enc-cm-over3", "enc-cm-over4", "enc-cm-surr", "enc-cm-above"}
TextPieces == {Lit(c) : c \in {"x", "SP", "TAB", "LF", "CR", "]", ">", "UE9", "U20AC", "U10000", "U1", "UFFFE", "UD800", "<"}}
              \cup {CRef(c) : c \in {"x", "SP", "LF", "CR", "<", "&", "U10000", "U0", "UFFFF", "U110000", "UD800", "U100000041", "UHUGE"}}
              \cup {PRef(c) : c \in {"<", "&", ">", "Q"}}
CorePieces == {Lit("x"), Lit("]"), Lit(">"), Lit("CR"), Lit("LF"), CRef("CR"), PRef("<")}
AlphaLexis ==
  {ST("a", <<>>), ET("a")}
  \cup {TX(ps) : ps \in SeqsLen(TextPieces, 1, 2)} \cup {TX(ps) : ps \in SeqsLen(CorePieces, 3, 3)}
  \cup {CD(cs) : cs \in SeqsLen({"x", "<", "&", "]", ">", "CR", "U1"}, 0, 2)} \cup {CD(<<"]", "]", ">">>), CD(<<"]", "]", "]">>)}
  \cup {CM(cs) : cs \in SeqsLen({"x", "-", "<", "LF", "UFFFE"}, 0, 2)} \cup {CM(<<"-", "x", "-">>), CM(<<"x", "-", "-">>)}
  \cup ({PI("t", cs) : cs \in SeqsLen({"d", "?", ">", "SP", "U1"}, 0, 2)} \ {PI("t", <<"?", ">">>)})    \* "?>" inside the data cannot be rendered: it ends the PI
  \cup {PI("xml", <<"d">>), PI("xMl", <<>>), PI("xml-s", <<"d">>)}
  \cup {BAD(k) : k \in {"amp-alone", "cref-unterminated", "cref-nodigits", "cref-badhex", "cref-upperx", "eref-unterminated",
                        "eof-in-cdata", "cdata-lower", "eof-in-comment", "eof-in-pi", "lt-space", "lt-bang", "comment-3dash",
                        "utf8-ff", "utf8-cont", "utf8-overlong", "trunc-utf8", "undeclared-ref"}}
  \cup {BAD(k) : k \in EncodingBad}
AttrNames == {"x", "y", "p:x", "q:x", "xmlns:p", "xmlns:q"}
AttrPieces == {Lit(c) : c \in {"x", "SP", "LF", "'", ">", "<", "U1"}} \cup {CRef(c) : c \in {"SP", "LF", "<", "U0", "U110000", "U100000041", "UHUGE"}}
              \cup {PRef(c) : c \in {"<", "Q"}}
AttrVals == SeqsLen(AttrPieces, 0, 1) \cup {<<Lit("x"), Lit("SP")>>, <<Lit("u")>>, <<Lit("v")>>}
NsVals == {<<Lit("u")>>, <<Lit("v")>>, <<>>}
OneAttr == {<<n, v>> : n \in {"x", "y", "p:x"}, v \in AttrVals} \cup {<<n, v>> : n \in {"xmlns:p", "xmlns:q"}, v \in NsVals}
            \cup {<<"q:x", <<Lit("x")>>>>, <<"xmlns", <<Lit("u")>>>>, <<"xml:lang", <<Lit("x")>>>>}
SimpleAttr == {<<n, <<Lit("x")>>>> : n \in {"x", "y", "p:x", "q:x"}} \cup {<<n, v>> : n \in {"xmlns:p", "xmlns:q"}, v \in {<<Lit("u")>>, <<Lit("v")>>}}
ScopeAttr == {<<"xmlns:p", <<Lit("u")>>>>, <<"xmlns:q", <<Lit("u")>>>>, <<"xmlns:p", <<Lit("v")>>>>, <<"x", <<Lit("x")>>>>}
AlphaAttrs ==
  {EM("a", <<a>>) : a \in OneAttr} \cup {ST("a", <<a>>) : a \in ScopeAttr} \cup {ET("a"), ET("p:a"), EM("a", <<>>)}
  \cup {EM(n, as) : n \in {"a", "p:a"}, as \in SeqsLen(SimpleAttr, 2, 2)}
  \cup {ST("p:a", as) : as \in SeqsLen(ScopeAttr, 0, 1)} \cup {EM("p:a", <<>>), EM("q:a", <<>>)}
  \cup {EM("a", as) : as \in SeqsLen({<<n, <<Lit("x")>>>> : n \in {"x", "y"}}, 3, 3)}
  \cup {BAD(k) : k \in {"attr-noeq", "attr-noquote", "attr-nospace", "attr-novalue", "eof-in-attval", "attr-amp", "attr-mixquote",
                        "attr-slash", "eof-in-stag"}}
\* entities: internal subsets from a fixed menu
E(n, v) == EntDecl(n, v)
DtdMenu ==
  { <<E("e1", <<TX(<<Lit("x")>>)>>), E("e2", <<ER("e1"), TX(<<Lit("y")>>)>>)>>,                       \* nested text
    <<E("e1", <<EM("b", <<>>)>>), E("e2", <<ST("b", <<>>), TX(<<Lit("x")>>), ET("b")>>)>>,             \* balanced markup
    <<E("e1", <<ST("b", <<>>)>>), E("e2", <<ET("b")>>)>>,                                               \* partial markup
    <<E("e1", <<ER("e1")>>), E("e2", <<ER("e3")>>), E("e3", <<ER("e2")>>)>>,                             \* recursion
    <<E("e1", <<TX(<<Lit("x")>>)>>), E("e1", <<EM("b", <<>>)>>), E("e2", <<ER("e9")>>)>>,                \* first binds; undeclared inside
    <<E("e1", <<TX(<<PRef("<"), Lit("SP"), CRef("LF")>>)>>), E("e2", <<CM(<<"x">>)>>)>> }
AlphaEntities ==
  {DT("a", ds) : ds \in DtdMenu} \cup {ST("a", <<>>), ET("a"), ST("b", <<>>), ET("b"), TX(<<Lit("x")>>)}
  \cup {ER(n) : n \in {"e1", "e2", "e3"}}
  \cup {EM("a", <<<<"x", ps>>>>) : ps \in {<<ERefP("e1")>>, <<ERefP("e2")>>, <<Lit("x"), ERefP("e1")>>, <<ERefP("e3")>>}}
  \cup {BAD(k) : k \in {"eref-unterminated", "pe-in-content"}}

\* namespace scoping: declarations on an outer element, use on an inner one, re-declaration, two prefixes for one name
AlphaNsScope ==
  {ST("a", <<a>>) : a \in ScopeAttr} \cup {ST("p:a", as) : as \in SeqsLen(ScopeAttr, 0, 1)}
  \cup {EM("p:a", <<>>), EM("q:a", <<>>), EM("a", <<<<"p:x", <<Lit("x")>>>>>>), EM("a", <<<<"p:x", <<Lit("x")>>>>, <<"q:x", <<Lit("x")>>>>>>),
         EM("a", <<<<"xmlns:q", <<Lit("u")>>>>, <<"p:x", <<Lit("x")>>>>, <<"q:x", <<Lit("x")>>>>>>), ET("a"), ET("p:a")}
\* attribute values and defaults (3.3.3, 3.3.2), line numbers
DTV == <<AttDecl("a", "x", "CDATA", "", <<Lit("d"), Lit("SP"), Lit("SP"), Lit("v")>>),
         AttDecl("a", "t", "NMTOKENS", "", <<Lit("SP"), Lit("n"), Lit("SP"), Lit("SP"), Lit("m"), Lit("SP")>>),
         AttDecl("a", "i", "ID", "#IMPLIED", <<>>),
         AttDecl("a", "f", "CDATA", "#FIXED", <<Lit("k"), CRef("LF")>>),
         EntDecl("w", <<TX(<<Lit("SP"), CRef("LF"), Lit("x")>>)>>),
         AttDecl("a", "x", "CDATA", "", <<Lit("z")>>)>>
ValPieces == {Lit("x"), Lit("SP"), Lit("LF"), Lit("CR"), Lit("TAB"), CRef("SP"), CRef("LF"), CRef("CR"), CRef("TAB"), ERefP("w")}
SmallValues == {EM("b", <<>>), ET("a"), TX(<<Lit("LF")>>), TX(<<Lit("CR"), Lit("LF"), Lit("CR")>>), CM(<<"LF">>),
                EM("a", <<<<"x", <<Lit("CR")>>>>>>)}
AlphaValues ==
  {DT("a", DTV)} \cup {EM("a", <<<<n, v>>>>) : n \in {"x", "t"}, v \in SeqsLen(ValPieces, 1, 3)}
  \cup {EM("a", <<>>), EM("b", <<<<"x", <<Lit("SP"), Lit("x"), Lit("SP")>>>>>>), EM("a", <<<<"i", <<Lit("SP"), Lit("x"), Lit("SP")>>>>>>),
         EM("a", <<<<"f", <<Lit("k"), CRef("LF")>>>>, <<"t", <<Lit("x")>>>>>>),
         ST("a", <<<<"x", <<Lit("LF")>>>>>>), ST("a", <<<<"x", <<Lit("CR"), Lit("LF")>>>>, <<"t", <<Lit("LF"), Lit("x")>>>>>>),
         WS(<<"LF">>), CM(<<"x", "CR", "x">>)}
  \cup SmallValues
Alphabet(p) == CASE p = "structure" -> AlphaStructure
                 [] p = "prolog" -> AlphaProlog
                 [] p = "lexis" -> AlphaLexis
                 [] p = "attrs" -> AlphaAttrs
                 [] p = "entities" -> AlphaEntities
                 [] p = "nsscope" -> AlphaNsScope
                 [] p = "values" -> AlphaValues
\* profiles that look at one construct start inside the root element
InitToks(p) == CASE p = "lexis" -> <<ST("a", <<>>)>>
                 [] OTHER -> <<>>
SmallBounds == [structure |-> 3, prolog |-> 3, lexis |-> 3, attrs |-> 2, nsscope |-> 3, entities |-> 4, values |-> 3]
QuickBounds == [structure |-> 5, prolog |-> 4, lexis |-> 3, attrs |-> 2, nsscope |-> 4, entities |-> 5, values |-> 4]
ThoroughBounds == [structure |-> 6, prolog |-> 4, lexis |-> 3, attrs |-> 2, nsscope |-> 5, entities |-> 6, values |-> 4]

\* ------------------------------------------------------------------------------------------------------------
\* behaviours: extend the document token by token; stop at the first fatal error (prefix closed) or at EOF
\* ------------------------------------------------------------------------------------------------------------
VARIABLES prof, toks, st
vars == <<prof, toks, st>>
MaxLen == Bounds[prof]
Init == prof \in Profiles /\ toks = InitToks(prof) /\ st = RunAll(St0, InitToks(prof))
\* generator-only pruning (does not restrict what the machine or the grammar say)
GenOK(t) == /\ (t[1] = "ST" => Len(st.stack) < MaxDepth)
            /\ (toks # <<>> /\ t[1] \in {"TX", "WS"} => Last(toks)[1] \notin {"TX", "WS"})
            /\ (prof = "lexis" => (t[1] \in {"ST", "ET"} \/ Len(toks) < MaxLen - 1))
            /\ (prof \in {"attrs", "lexis", "nsscope"} => st.phase # "misc")  \* what follows the root is the structure profile's business
            /\ (prof = "values" /\ st.phase = "content" => t \in SmallValues)
            /\ (prof = "values" /\ st.phase = "misc" => t = CM(<<"LF">>) /\ Len(toks) < 3)
            /\ (prof = "values" /\ st.phase = "prolog" => t[1] \in {"DT", "ST", "EM"} \/ (t = WS(<<"LF">>) /\ toks = <<>>))
Step(t) == /\ GenOK(t)
           /\ toks' = Append(toks, t)
           /\ st' = Delta(st, t)
           /\ UNCHANGED prof
Eof == /\ ~st.fatal /\ st.phase # "done"
       /\ toks' = toks
       /\ st' = DeltaEof(st)
       /\ UNCHANGED prof
\* candidate tokens (the alphabet, cut down early where GenOK would reject almost all of it)
Cands == IF prof = "values" /\ st.phase = "content" THEN SmallValues
         ELSE IF prof = "values" /\ st.phase = "misc" THEN {CM(<<"LF">>)}
         ELSE Alphabet(prof)
Extend == ~st.fatal /\ st.phase # "done" /\ Len(toks) < MaxLen /\ \E t \in Cands : Step(t)
Next == Extend \/ Eof
Spec == Init /\ [][Next]_vars

\* canonical completion of a prefix: close the open elements; supply a root when still in the prolog
RECURSIVE Closers(_)
Closers(stack) == IF stack = <<>> THEN <<>> ELSE <<ET(Last(stack))>> \o Closers(Front(stack))
CompletionOf(tk, s) == IF s.phase = "prolog" THEN tk \o <<EM("a", <<>>)>> ELSE tk \o Closers(s.stack)
Completion == CompletionOf(toks, st)

TypeOK == st.phase \in {"prolog", "content", "misc", "done"} /\ Len(st.scopes) = Len(st.stack) /\ (st.phase = "content" => st.stack # <<>>) /\ (st.phase \in {"prolog", "misc"} => st.stack = <<>>)
\* property C02 on the specification: fatal iff not well-formed; never later than the first violating token
Agree == IF st.phase = "done" THEN st.fatal <=> ~WF(toks)
         ELSE st.fatal <=> ~WF(Completion)
AgreeNS == IF st.phase = "done" THEN (st.fatal \/ st.nsfatal) <=> ~NSWF(toks)
           ELSE (st.fatal \/ st.nsfatal) <=> ~NSWF(Completion)
\* property C03 on the specification: what the machine reports for an accepted document is its infoset
InfosetAgree == (st.phase = "done" /\ ~st.fatal) => st.out = Infoset(toks)
Terminal == st.fatal \/ st.phase = "done"
=============================================================================
