--------------------------- MODULE SerializerChunk ---------------------------
(* The chunked output loop of XMLFormatter::handleUnEscapedChars (property C12): an escape-free run of characters is
   handed to the transcoder in blocks of at most B UTF-16 code units; the transcoder fills a buffer of B bytes and
   reports how many code units it consumed (whole characters only); the loop advances by what was CONSUMED.
   A character is [u code units, b output bytes]: [1,1] [1,2] [1,3] (BMP in UTF-8/UTF-16/8-bit) and [2,4] (surrogate pair).
   Declarative: every character of the run is written exactly once, in order, and no block overflows the buffer,
   for every run around the block size and every mixture of widths.  (B = kTmpBufSize = 16384 in the code; the binder
   crosses the real block size with runs of 5461..16385 characters of every width.) *)
EXTENDS Naturals, Sequences, TLC
CONSTANTS B, MaxRun
Kinds == {<<1, 1>>, <<1, 2>>, <<1, 3>>, <<2, 4>>}
VARIABLES run, phase, pos, count, outp, maxBytes
vars == <<run, phase, pos, count, outp, maxBytes>>
Units(s) == LET F[j \in 0..Len(s)] == IF j = 0 THEN 0 ELSE F[j - 1] + s[j][1] IN F[Len(s)]
Init == run = <<>> /\ phase = "build" /\ pos = 1 /\ count = 0 /\ outp = <<>> /\ maxBytes = 0
AddChar == /\ phase = "build" /\ Len(run) < MaxRun
           /\ \E k \in Kinds : run' = Append(run, k)
           /\ UNCHANGED <<phase, pos, count, outp, maxBytes>>
Go == /\ phase = "build"
      /\ phase' = "loop" /\ count' = Units(run) /\ UNCHANGED <<run, pos, outp, maxBytes>>
\* transcodeTo(src at pos, srcChars units offered, B bytes room): the longest prefix of whole characters that fits both
RECURSIVE Eat(_, _, _)
Eat(p, unitsLeft, bytesLeft) ==
    IF p > Len(run) \/ run[p][1] > unitsLeft \/ run[p][2] > bytesLeft THEN 0
    ELSE 1 + Eat(p + 1, unitsLeft - run[p][1], bytesLeft - run[p][2])
Block == /\ phase = "loop" /\ count > 0
         /\ LET srcChars == IF count > B THEN B ELSE count
                n == Eat(pos, srcChars, B)
                eatenUnits == Units(SubSeq(run, pos, pos + n - 1))
                bytes == LET F[j \in 0..n] == IF j = 0 THEN 0 ELSE F[j - 1] + run[pos + j - 1][2] IN F[n] IN
           /\ outp' = outp \o [j \in 1..n |-> pos + j - 1]          \* fTarget->writeChars(fTmpBuf, outBytes)
           /\ pos' = pos + n                                         \* srcPtr += charsEaten
           /\ count' = count - eatenUnits                            \* count  -= charsEaten
           /\ maxBytes' = IF bytes > maxBytes THEN bytes ELSE maxBytes
         /\ UNCHANGED <<run, phase>>
Finish == phase = "loop" /\ count = 0 /\ phase' = "done" /\ UNCHANGED <<run, pos, count, outp, maxBytes>>
Next == AddChar \/ Go \/ Block \/ Finish
Spec == Init /\ [][Next]_vars
InOrderOnce == \A j \in 1..Len(outp) : outp[j] = j                       \* a prefix of the run, in order, nothing twice
AllEmitted == phase = "done" => Len(outp) = Len(run)                     \* nothing dropped
NoOverflow == maxBytes <= B
Progress == (phase = "loop" /\ count > 0) => Eat(pos, (IF count > B THEN B ELSE count), B) > 0   \* the loop terminates (B >= 4)
CountIsRest == phase = "loop" => count = Units(SubSeq(run, pos, Len(run)))
=============================================================================
