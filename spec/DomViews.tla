------------------------------ MODULE DomViews ------------------------------
(* Live views over the DomTree model (property C14): NodeIterator, Range, getElementsByTagName lists,
   TreeWalker.  DomTree's actions are the mutations; every mutation is composed with the fix-ups that
   DOM Level 2 Traversal-Range prescribes.

   Operational layer (shaped like the code): a successful mutation is decomposed into the primitive steps
   the implementation performs (removeChild(x) / link x under p before r / text insert / text delete / text
   replaced / split), and each primitive step runs the per-view fix-up (iterator removeNode, range
   updateRangeFor*, change flag of deep node lists) on the intermediate tree.  Iterator stepping, deep-list
   caching and boundary-point comparison are the pointer walks of the implementation.

   Declarative layer (vocabulary of the recommendations): IteratorRefLive, IterMatchesDocOrder (next/previous
   = nearest accepted node in document order after/before the position), IterStable (a mutation never moves a
   surviving, unmoved node to the other side of an iterator), RangeValid, RangeMovesAsSpecified (DOM Range 2.12
   insertion/deletion rules in one-shot arithmetic form), CmpMatchesDocOrder, ListsMatchTree.

   Named deviations modelled as coded (the recommendation leaves them open):
     - replaceChild = insertBefore(new, old) then removeChild(old) (order matters for a boundary just after old);
     - normalize moves a boundary inside a merged Text node to (parent, index) (plain removal rule);
     - setNodeValue/setData puts boundaries inside that node to offset 0;
     - setStart/setEnd on a node of another document collapses the range before raising WRONG_DOCUMENT_ERR;
     - a failed nextNode()/previousNode() still flips the iterator's direction flag.
   NOT modelled as coded (the code breaks the property; the specification follows the recommendation):
     - text insertion moves a start boundary behind the insertion point by the inserted length;
     - a fresh iterator (no reference node yet) is unaffected by removals;
     - splitText of a parentless Text node keeps boundaries in the node (clamped), start and end stay in one tree;
     - splitText moves a boundary (parent, index of the node + 1) behind the new node (else start can pass end).
*)
EXTENDS DomTree

CONSTANTS NIt, NRg, NLs, NWk          \* maximal number of iterators / ranges / tag-name lists / walkers

VARIABLES its, rgs, lss, wks, ret
views == <<its, rgs, lss, wks>>
vvars == <<vars, its, rgs, lss, wks, ret>>

Shows == {"all", "elem", "text"}
Filts == {"none", "rejB", "skipB"}     \* filters on elements named "b"
ListNames == {"a", "b", "*"}

\* a "world": the part of the tree the views look at (so that helpers work on intermediate and successor trees)
W0 == [k |-> kids, p |-> parent, kd |-> kind, nm |-> name, dt |-> data]
W1 == [k |-> kids', p |-> parent', kd |-> kind', nm |-> name', dt |-> data']

---------------------------------------------------------------------------
\* tree helpers on a world

PosIn(s, x) == IF \E i \in 1..Len(s) : s[i] = x THEN CHOOSE i \in 1..Len(s) : s[i] = x ELSE 0
ParW(W, n) == IF n = 0 THEN 0 ELSE W.p[n]
NextSibW(W, n) == IF ParW(W, n) = 0 THEN 0
                  ELSE LET s == W.k[W.p[n]] i == PosIn(s, n) IN IF i < Len(s) THEN s[i + 1] ELSE 0
PrevSibW(W, n) == IF ParW(W, n) = 0 THEN 0
                  ELSE LET s == W.k[W.p[n]] i == PosIn(s, n) IN IF i > 1 THEN s[i - 1] ELSE 0
Idx0W(W, x) == PosIn(W.k[W.p[x]], x) - 1                      \* 0-based index of x under its parent
RECURSIVE AncSW(_, _, _)
AncSW(W, a, n) == n # 0 /\ (n = a \/ AncSW(W, a, W.p[n]))    \* a is ancestor-or-self of n
RECURSIVE RootW(_, _)
RootW(W, n) == IF W.p[n] = 0 THEN n ELSE RootW(W, W.p[n])
RECURSIVE PreSeqW(_, _), PreKidsW(_, _, _)
PreKidsW(W, s, i) == IF i > Len(s) THEN <<>> ELSE PreSeqW(W, s[i]) \o PreKidsW(W, s, i + 1)
PreSeqW(W, n) == <<n>> \o PreKidsW(W, W.k[n], 1)              \* document order of the subtree of n
DescW(W, n) == Range(PreSeqW(W, n))
IsCharC(W, n) == W.kd[n] \in CharKinds \cup {"pi"}            \* containers whose offsets count characters
BLen(W, n) == IF IsCharC(W, n) THEN Len(W.dt[n]) ELSE Len(W.k[n])

\* functional tree edits (the primitive steps of the implementation)
RemT(W, x) == [W EXCEPT !.k[W.p[x]] = Remove(@, x), !.p[x] = 0]
InsT(W, x, p, r) == [W EXCEPT !.k[p] = IF r = 0 THEN Append(@, x) ELSE Splice(@, PosIn(@, r), 0, <<x>>), !.p[x] = p]

---------------------------------------------------------------------------
\* NodeIterator: [root, cur, fwd, show, filt, det]   (DOMNodeIteratorImpl: fRoot, fCurrentNode, fForward, ...)

RECURSIVE ClimbNext(_, _, _)
ClimbNext(W, root, p) == IF p = 0 \/ p = root THEN 0
                         ELSE IF NextSibW(W, p) # 0 THEN NextSibW(W, p) ELSE ClimbNext(W, root, W.p[p])
TNext(W, root, n, vc) ==                                      \* DOMNodeIteratorImpl::nextNode(node, visitChildren)
    IF n = 0 THEN root
    ELSE IF vc /\ W.k[n] # <<>> THEN W.k[n][1]
    ELSE IF n = root THEN 0
    ELSE IF NextSibW(W, n) # 0 THEN NextSibW(W, n)
    ELSE ClimbNext(W, root, W.p[n])
RECURSIVE DeepLast(_, _)
DeepLast(W, x) == IF W.k[x] = <<>> THEN x ELSE DeepLast(W, W.k[x][Len(W.k[x])])
TPrev(W, root, n) ==                                          \* DOMNodeIteratorImpl::previousNode(node)
    IF n = root THEN 0
    ELSE IF PrevSibW(W, n) = 0 THEN W.p[n]
    ELSE DeepLast(W, PrevSibW(W, n))

ShownW(W, show, n) == CASE show = "all" -> TRUE
                        [] show = "elem" -> W.kd[n] = "elem"
                        [] show = "text" -> W.kd[n] = "text"
                        [] OTHER -> FALSE
FiltW(W, filt, n) == IF filt # "none" /\ W.kd[n] = "elem" /\ W.nm[n] = "b"
                     THEN (IF filt = "rejB" THEN "reject" ELSE "skip") ELSE "accept"
ItAcc(W, it, n) == ShownW(W, it.show, n) /\ FiltW(W, it.filt, n) = "accept"

RECURSIVE ItFwd(_, _, _), ItBwd(_, _, _)
ItFwd(W, it, cand) ==
    IF cand = 0 THEN [r |-> 0, it |-> [it EXCEPT !.fwd = TRUE]]
    ELSE IF ItAcc(W, it, cand) THEN [r |-> cand, it |-> [it EXCEPT !.cur = cand, !.fwd = TRUE]]
    ELSE ItFwd(W, it, TNext(W, it.root, cand, TRUE))
ItNextW(W, it) == ItFwd(W, it, IF ~it.fwd /\ it.cur # 0 THEN it.cur ELSE TNext(W, it.root, it.cur, TRUE))
ItBwd(W, it, cand) ==
    IF cand = 0 THEN [r |-> 0, it |-> [it EXCEPT !.fwd = FALSE]]
    ELSE IF ItAcc(W, it, cand) THEN [r |-> cand, it |-> [it EXCEPT !.cur = cand, !.fwd = FALSE]]
    ELSE ItBwd(W, it, TPrev(W, it.root, cand))
ItPrevW(W, it) == IF it.cur = 0 THEN [r |-> 0, it |-> it]
                  ELSE ItBwd(W, it, IF it.fwd THEN it.cur ELSE TPrev(W, it.root, it.cur))

\* what repeated nextNode() / previousNode() calls would return (observation of the hidden position)
RECURSIVE FwdSeq(_, _), BwdSeq(_, _)
FwdSeq(W, it) == LET s == ItNextW(W, it) IN IF s.r = 0 THEN <<>> ELSE <<s.r>> \o FwdSeq(W, s.it)
BwdSeq(W, it) == LET s == ItPrevW(W, it) IN IF s.r = 0 THEN <<>> ELSE <<s.r>> \o BwdSeq(W, s.it)

\* DOMNodeIteratorImpl::removeNode(node), called before node is unlinked (W = tree before the removal)
RECURSIVE OnChain(_, _, _, _)
OnChain(W, root, n, x) == n # 0 /\ n # root /\ (n = x \/ OnChain(W, root, W.p[n], x))
ItRemFix(W, it, x) ==
    IF it.det \/ it.cur = 0 \/ ~OnChain(W, it.root, it.cur, x) THEN it
    ELSE IF it.fwd THEN [it EXCEPT !.cur = TPrev(W, it.root, x)]
    ELSE LET nx == TNext(W, it.root, x, FALSE)
         IN IF nx # 0 THEN [it EXCEPT !.cur = nx] ELSE [it EXCEPT !.cur = TPrev(W, it.root, x), !.fwd = TRUE]

---------------------------------------------------------------------------
\* deep node lists: [root, nm, stale, cn, ci]   (DOMDeepNodeListImpl: fRootNode, fTagName, fChanges, fCurrentNode, fCurrentIndexPlus1)

MatchesL(W, l, n) == W.kd[n] = "elem" /\ (l.nm = "*" \/ W.nm[n] = l.nm)
RECURSIVE ClimbL(_, _, _)
ClimbL(W, root, c) == IF c = root \/ c = 0 THEN 0 ELSE IF NextSibW(W, c) # 0 THEN NextSibW(W, c) ELSE ClimbL(W, root, W.p[c])
StepL(W, root, c) == IF W.k[c] # <<>> THEN W.k[c][1]
                     ELSE IF c # root /\ NextSibW(W, c) # 0 THEN NextSibW(W, c)
                     ELSE ClimbL(W, root, c)
RECURSIVE NextMatch(_, _, _)
NextMatch(W, l, c) == LET n == StepL(W, l.root, c) IN          \* nextMatchingElementAfter
    IF n = 0 THEN 0 ELSE IF n # l.root /\ MatchesL(W, l, n) THEN n ELSE NextMatch(W, l, n)
RECURSIVE CacheLoop(_, _, _, _, _, _)
CacheLoop(W, l, idx, cn, ci, nx) ==
    IF ci < idx + 1 /\ cn # 0
    THEN LET m == NextMatch(W, l, cn) IN IF m = 0 THEN [cn |-> cn, ci |-> ci, nx |-> 0] ELSE CacheLoop(W, l, idx, m, ci + 1, m)
    ELSE [cn |-> cn, ci |-> ci, nx |-> nx]
CacheItem(W, l, idx) ==                                       \* DOMDeepNodeListImpl::cacheItem(index)
    IF ~l.stale /\ l.ci <= idx + 1 /\ idx + 1 = l.ci THEN [r |-> l.cn, l |-> l]
    ELSE LET scratch == l.stale \/ l.ci > idx + 1
             c == CacheLoop(W, l, idx, IF scratch THEN l.root ELSE l.cn, IF scratch THEN 0 ELSE l.ci, 0)
         IN [r |-> IF c.nx # 0 THEN c.cn ELSE 0, l |-> [l EXCEPT !.stale = FALSE, !.cn = c.cn, !.ci = c.ci]]
ListLen(W, l) == LET a == CacheItem(W, l, 0) b == CacheItem(W, a.l, MaxId + 1) IN [r |-> b.l.ci, l |-> b.l]   \* getLength
MatchList(W, l) == SelectSeq(Tail(PreSeqW(W, l.root)), LAMBDA n : MatchesL(W, l, n))      \* declarative content

---------------------------------------------------------------------------
\* ranges: [doc, sc, so, ec, eo, det]

\* compareBoundaryPoints as coded: position of (a, ao) relative to (b, bo): "lt" | "eq" | "gt"
RECURSIVE DepthW(_, _), Lift(_, _, _), Meet(_, _, _)
DepthW(W, n) == IF W.p[n] = 0 THEN 0 ELSE 1 + DepthW(W, W.p[n])
Lift(W, n, k) == IF k = 0 THEN n ELSE Lift(W, W.p[n], k - 1)
Meet(W, x, y) == IF W.p[x] = W.p[y] THEN <<x, y>> ELSE Meet(W, W.p[x], W.p[y])
KidAbove(W, a, b) == LET c == {x \in Range(W.k[a]) : AncSW(W, x, b)} IN IF c = {} THEN 0 ELSE CHOOSE x \in c : TRUE
CmpBP(W, a, ao, b, bo) ==
    IF a = b THEN (IF ao < bo THEN "lt" ELSE IF ao = bo THEN "eq" ELSE "gt")
    ELSE IF KidAbove(W, a, b) # 0 THEN (IF ao <= Idx0W(W, KidAbove(W, a, b)) THEN "lt" ELSE "gt")
    ELSE IF KidAbove(W, b, a) # 0 THEN (IF Idx0W(W, KidAbove(W, b, a)) < bo THEN "lt" ELSE "gt")
    ELSE LET da == DepthW(W, a) db == DepthW(W, b)
             a1 == IF da > db THEN Lift(W, a, da - db) ELSE a
             b1 == IF db > da THEN Lift(W, b, db - da) ELSE b
             m == Meet(W, a1, b1)
         IN IF W.p[m[1]] # 0 /\ PosIn(W.k[W.p[m[1]]], m[1]) > PosIn(W.k[W.p[m[1]]], m[2]) THEN "gt" ELSE "lt"

\* declarative position of a boundary point: path of child indices from the root container, then the offset
RECURSIVE PathW(_, _), LexCmp(_, _)
PathW(W, n) == IF W.p[n] = 0 THEN <<>> ELSE Append(PathW(W, W.p[n]), Idx0W(W, n))
KeyW(W, n, off) == Append(PathW(W, n), off)
LexCmp(x, y) == IF x = <<>> THEN (IF y = <<>> THEN "eq" ELSE "lt")
                ELSE IF y = <<>> THEN "gt"
                ELSE IF Head(x) < Head(y) THEN "lt" ELSE IF Head(x) > Head(y) THEN "gt" ELSE LexCmp(Tail(x), Tail(y))

Collapse(rg, toStart) == IF toStart THEN [rg EXCEPT !.ec = rg.sc, !.eo = rg.so] ELSE [rg EXCEPT !.sc = rg.ec, !.so = rg.eo]
NormRg(W, rg, toStart) ==      \* tail of setStart/setEnd: collapse when the ends are in different trees or out of order
    IF RootW(W, rg.sc) # RootW(W, rg.ec) \/ CmpBP(W, rg.sc, rg.so, rg.ec, rg.eo) = "gt" THEN Collapse(rg, toStart) ELSE rg

\* single-step fix-ups as coded
RgRemFix(W, rg, x) ==          \* updateRangeForDeletedNode(x), before x is unlinked
    IF rg.det THEN rg ELSE
    LET p == W.p[x] i == Idx0W(W, x)
        so1 == IF p = rg.sc /\ rg.so > i THEN rg.so - 1 ELSE rg.so
        eo1 == IF p = rg.ec /\ rg.eo > i THEN rg.eo - 1 ELSE rg.eo
        both == p = rg.sc /\ p = rg.ec
        inS == ~both /\ AncSW(W, x, rg.sc)
        inE == ~both /\ AncSW(W, x, rg.ec)
    IN [rg EXCEPT !.sc = IF inS THEN p ELSE @, !.so = IF inS THEN i ELSE so1,
                  !.ec = IF inE THEN p ELSE @, !.eo = IF inE THEN i ELSE eo1]
RgInsFix(W, rg, x) ==          \* updateRangeForInsertedNode(x), after x was linked
    IF rg.det THEN rg ELSE
    LET p == W.p[x] i == Idx0W(W, x)
    IN [rg EXCEPT !.so = IF p = rg.sc /\ i < @ THEN @ + 1 ELSE @, !.eo = IF p = rg.ec /\ i < @ THEN @ + 1 ELSE @]
RgInsSplitFix(W, rg, x) ==     \* the new node of splitText: a boundary just behind the split node stays behind both halves
    IF rg.det THEN rg ELSE          \* (recommendation/validity; the pinned code uses RgInsFix here and can leave start after end)
    LET p == W.p[x] i == Idx0W(W, x)
    IN [rg EXCEPT !.so = IF p = rg.sc /\ i <= @ THEN @ + 1 ELSE @, !.eo = IF p = rg.ec /\ i <= @ THEN @ + 1 ELSE @]
RgTInsFix(rg, n, off, len) ==  \* DOM Range 2.12.1 (the recommendation, not the pinned code for the start offset)
    IF rg.det THEN rg ELSE
    [rg EXCEPT !.so = IF rg.sc = n /\ @ > off THEN @ + len ELSE @, !.eo = IF rg.ec = n /\ @ > off THEN @ + len ELSE @]
DelOff(o, off, cnt) == IF o > off + cnt THEN o - cnt ELSE IF o > off THEN off ELSE o
RgTDelFix(rg, n, off, cnt) ==  \* updateRangeForDeletedText
    IF rg.det THEN rg ELSE
    [rg EXCEPT !.so = IF rg.sc = n THEN DelOff(@, off, cnt) ELSE @, !.eo = IF rg.ec = n THEN DelOff(@, off, cnt) ELSE @]
RgTRepFix(rg, n) ==            \* receiveReplacedText
    IF rg.det THEN rg ELSE [rg EXCEPT !.so = IF rg.sc = n THEN 0 ELSE @, !.eo = IF rg.ec = n THEN 0 ELSE @]
RgSplitFix(rg, n, new, off) == \* updateSplitInfo
    IF rg.det THEN rg ELSE
    [rg EXCEPT !.sc = IF rg.sc = n /\ rg.so > off THEN new ELSE @, !.so = IF rg.sc = n /\ @ > off THEN @ - off ELSE @,
               !.ec = IF rg.ec = n /\ rg.eo > off THEN new ELSE @, !.eo = IF rg.ec = n /\ @ > off THEN @ - off ELSE @]
RgSplitOrphanFix(rg, n, off) ==  \* parentless node: boundaries stay in the node, clamped (keeps both ends in one tree)
    IF rg.det THEN rg ELSE
    [rg EXCEPT !.so = IF rg.sc = n /\ @ > off THEN off ELSE @, !.eo = IF rg.ec = n /\ @ > off THEN off ELSE @]

---------------------------------------------------------------------------
\* a successful mutation as the sequence of primitive steps the implementation performs, folded over the views

V0 == [its |-> its, rgs |-> rgs, lss |-> lss]
MapS(s, F(_)) == [i \in 1..Len(s) |-> F(s[i])]
DocOfW(W, n) == IF W.kd[n] = "doc" THEN n ELSE owner[n]
StaleIn(W, ls, d) == MapS(ls, LAMBDA l : IF DocOfW(W, l.root) = d THEN [l EXCEPT !.stale = TRUE] ELSE l)

RECURSIVE Apply(_, _, _)
Apply(ev, W, V) ==
    IF ev = <<>> THEN [w |-> W, v |-> V]
    ELSE LET e == Head(ev) IN
      CASE e[1] = "rem" ->
             Apply(Tail(ev), RemT(W, e[2]),
                   [its |-> MapS(V.its, LAMBDA it : ItRemFix(W, it, e[2])),
                    rgs |-> MapS(V.rgs, LAMBDA rg : RgRemFix(W, rg, e[2])),
                    lss |-> StaleIn(W, V.lss, DocOfW(W, e[2]))])
        [] e[1] = "ins" ->
             LET W2 == InsT(W, e[2], e[3], e[4])
             IN Apply(Tail(ev), W2, [V EXCEPT !.rgs = MapS(@, LAMBDA rg : RgInsFix(W2, rg, e[2])),
                                              !.lss = StaleIn(W2, @, DocOfW(W, e[3]))])
        [] e[1] = "inss" ->
             LET W2 == InsT(W, e[2], e[3], e[4])
             IN Apply(Tail(ev), W2, [V EXCEPT !.rgs = MapS(@, LAMBDA rg : RgInsSplitFix(W2, rg, e[2])),
                                              !.lss = StaleIn(W2, @, DocOfW(W, e[3]))])
        [] e[1] = "tins" -> Apply(Tail(ev), W, [V EXCEPT !.rgs = MapS(@, LAMBDA rg : RgTInsFix(rg, e[2], e[3], e[4]))])
        [] e[1] = "tdel" -> Apply(Tail(ev), W, [V EXCEPT !.rgs = MapS(@, LAMBDA rg : RgTDelFix(rg, e[2], e[3], e[4]))])
        [] e[1] = "trep" -> Apply(Tail(ev), W, [V EXCEPT !.rgs = MapS(@, LAMBDA rg : RgTRepFix(rg, e[2]))])
        [] e[1] = "split" -> Apply(Tail(ev), W, [V EXCEPT !.rgs = MapS(@, LAMBDA rg : RgSplitFix(rg, e[2], e[3], e[4]))])
        [] e[1] = "splito" -> Apply(Tail(ev), W, [V EXCEPT !.rgs = MapS(@, LAMBDA rg : RgSplitOrphanFix(rg, e[2], e[3]))])

RECURSIVE FragEv(_, _, _, _)
FragEv(s, i, p, r) == IF i > Len(s) THEN <<>> ELSE << <<"rem", s[i]>>, <<"ins", s[i], p, r>> >> \o FragEv(s, i + 1, p, r)
InsEv(p, c, r) == IF r = c THEN <<>>
                  ELSE IF kind[c] = "frag" THEN FragEv(kids[c], 1, p, r)
                  ELSE (IF parent[c] # 0 THEN << <<"rem", c>> >> ELSE <<>>) \o << <<"ins", c, p, r>> >>
RECURSIVE NormEv(_, _)
NormEv(ms, i) == IF i > Len(ms) THEN <<>>
                 ELSE LET m == ms[i] stay == NormKids(kids[m], <<>>)
                          dropped == SelectSeq(kids[m], LAMBDA x : x \notin Range(stay))
                      IN MapS(dropped, LAMBDA x : <<"rem", x>>) \o NormEv(ms, i + 1)
NormScope(n) == SelectSeq(PreSeqW(W0, n), LAMBDA m : kind[m] \in ParentKinds)

\* A: the DomTree action; ev: its primitive steps when it succeeds; struct: the fold must reproduce kids'/parent'
VOp(A, ev, struct) ==
    /\ A
    /\ LET out == IF last'.res = "ok" THEN Apply(ev, W0, V0) ELSE [w |-> W0, v |-> V0]
       IN /\ (struct => Assert(out.w.k = kids' /\ out.w.p = parent', <<"primitive steps do not reproduce the DomTree successor", last'>>))
          /\ its' = out.v.its /\ rgs' = out.v.rgs /\ lss' = out.v.lss
    /\ UNCHANGED wks
    /\ ret' = <<>>

VInsertBefore(p, c, r) == VOp(InsertBefore(p, c, r), InsEv(p, c, r), TRUE)
VAppendChild(p, c) == VOp(AppendChild(p, c), InsEv(p, c, 0), TRUE)
VRemoveChild(p, c) == VOp(RemoveChild(p, c), << <<"rem", c>> >>, TRUE)
VReplaceChild(p, n, o) == VOp(ReplaceChild(p, n, o), InsEv(p, n, o) \o << <<"rem", o>> >>, TRUE)
VAdoptNode(d, n) == VOp(AdoptNode(d, n), IF kind[n] # "attr" /\ parent[n] # 0 THEN << <<"rem", n>> >> ELSE <<>>, kind[n] # "attr")
VNormalize(n) == VOp(Normalize(n), NormEv(NormScope(n), 1), TRUE)
VSplitText(n, off) == VOp(SplitText(n, off),
                          IF parent[n] # 0 THEN << <<"inss", nextId, parent[n], NextSibW(W0, n)>>, <<"split", n, nextId, off>> >>
                          ELSE << <<"splito", n, off>> >>, FALSE)
VSetData(n, s) == VOp(SetData(n, s), IF kind[n] # "attr" THEN << <<"trep", n>> >> ELSE <<>>, FALSE)
VAppendData(n, s) == VOp(AppendData(n, s), <<>>, FALSE)
VInsertData(n, off, s) == VOp(InsertData(n, off, s), << <<"tins", n, off, Len(s)>> >>, FALSE)
VDeleteData(n, off, cnt) == VOp(DeleteData(n, off, cnt), << <<"tdel", n, off, Min(cnt, Len(data[n]) - off)>> >>, FALSE)
VReplaceData(n, off, cnt, s) == VOp(ReplaceData(n, off, cnt, s),
                                    << <<"tdel", n, off, Min(cnt, Len(data[n]) - off)>>, <<"tins", n, off, Len(s)>> >>, FALSE)
VPlain(A) == VOp(A, <<>>, FALSE)       \* operations that do not touch any view

\* mutations that matter to views
VMutNext ==
    \/ \E p \in Live, c \in Live : kind[p] # "attr" /\ (VAppendChild(p, c) \/ VRemoveChild(p, c))
    \/ \E p \in Live, c \in Live, r \in Live : kind[p] # "attr" /\ (VInsertBefore(p, c, r) \/ VReplaceChild(p, c, r))
    \/ \E d \in Docs, n \in Live : VAdoptNode(d, n)
    \/ \E n \in Live, s \in Strs : VSetData(n, s) \/ VAppendData(n, s)
    \/ \E n \in Live, off \in 0..(MaxData + 1), s \in Strs : VInsertData(n, off, s)
    \/ \E n \in Live, off \in 0..(MaxData + 1), cnt \in 0..2 : VDeleteData(n, off, cnt)
    \/ \E n \in Live, off \in 0..(MaxData + 1), cnt \in 0..2, s \in Strs : VReplaceData(n, off, cnt, s)
    \/ \E n \in Live, off \in 0..(MaxData + 1) : VSplitText(n, off)
    \/ \E n \in Live : VNormalize(n)
\* the other DomTree operations
VOtherNext ==
    \/ \E d \in Docs, nm \in Names : VPlain(CreateElement(d, nm)) \/ VPlain(CreateAttribute(d, nm))
    \/ \E d \in Docs, s \in Strs : VPlain(CreateText(d, s)) \/ VPlain(CreateComment(d, s)) \/ VPlain(CreateCData(d, s))
    \/ \E d \in Docs : VPlain(CreateFragment(d)) \/ VPlain(CreatePI(d, NameSeq[1], <<>>))
    \/ \E n \in Live, deep \in BOOLEAN : VPlain(CloneNode(n, deep))
    \/ \E d \in Docs, n \in Live, deep \in BOOLEAN : VPlain(ImportNode(d, n, deep))
    \/ \E e \in Live, nm \in Names, s \in Strs : VPlain(SetAttribute(e, nm, s))
    \/ \E e \in Live, nm \in Names : VPlain(RemoveAttribute(e, nm))
    \/ \E e \in Live, a \in Live : VPlain(SetAttributeNode(e, a)) \/ VPlain(RemoveAttributeNode(e, a))

---------------------------------------------------------------------------
\* view operations (the tree does not change)

VDone(a, args, nm, s, res, r) == /\ last' = Op(a, args, nm, s, res, {res})
                                 /\ ret' = r
                                 /\ UNCHANGED tree
Containers == {n \in Live : kind[n] # "attr"}

CreateIterator(root, show, filt) ==
    /\ Len(its) < NIt /\ root \in Containers
    /\ its' = Append(its, [root |-> root, cur |-> 0, fwd |-> TRUE, show |-> show, filt |-> filt, det |-> FALSE])
    /\ UNCHANGED <<rgs, lss, wks>>
    /\ VDone("createNodeIterator", <<root>>, show, <<filt>>, "ok", <<>>)
ItStep(i, a, F(_, _)) ==
    /\ i \in 1..Len(its)
    /\ IF its[i].det THEN /\ UNCHANGED views
                          /\ VDone(a, <<i>>, "", <<>>, "INVALID_STATE_ERR", <<>>)
       ELSE LET s == F(W0, its[i]) IN /\ its' = [its EXCEPT ![i] = s.it]
                                        /\ UNCHANGED <<rgs, lss, wks>>
                                        /\ VDone(a, <<i>>, "", <<>>, "ok", <<s.r>>)
ItNext(i) == ItStep(i, "it.nextNode", ItNextW)
ItPrev(i) == ItStep(i, "it.previousNode", ItPrevW)
ItDetach(i) == /\ i \in 1..Len(its) /\ ~its[i].det
               /\ its' = [its EXCEPT ![i].det = TRUE]
               /\ UNCHANGED <<rgs, lss, wks>>
               /\ VDone("it.detach", <<i>>, "", <<>>, "ok", <<>>)

CreateList(root, nm) ==
    /\ Len(lss) < NLs /\ root \in Live /\ kind[root] \in {"doc", "elem"}
    /\ lss' = Append(lss, [root |-> root, nm |-> nm, stale |-> TRUE, cn |-> 0, ci |-> 0])
    /\ UNCHANGED <<its, rgs, wks>>
    /\ VDone("getElementsByTagName", <<root>>, nm, <<>>, "ok", <<>>)
ListItem(l, idx) == /\ l \in 1..Len(lss)
                    /\ LET c == CacheItem(W0, lss[l], idx) IN /\ lss' = [lss EXCEPT ![l] = c.l]
                                                               /\ VDone("list.item", <<l, idx>>, "", <<>>, "ok", <<c.r>>)
                    /\ UNCHANGED <<its, rgs, wks>>
ListLength(l) == /\ l \in 1..Len(lss)
                 /\ LET c == ListLen(W0, lss[l]) IN /\ lss' = [lss EXCEPT ![l] = c.l]
                                                     /\ VDone("list.getLength", <<l>>, "", <<>>, "ok", <<c.r>>)
                 /\ UNCHANGED <<its, rgs, wks>>

CreateRange(d) ==
    /\ Len(rgs) < NRg /\ d \in Docs
    /\ rgs' = Append(rgs, [doc |-> d, sc |-> d, so |-> 0, ec |-> d, eo |-> 0, det |-> FALSE])
    /\ UNCHANGED <<its, lss, wks>>
    /\ VDone("createRange", <<d>>, "", <<>>, "ok", <<>>)
RgSet(r, n, off, toStart) ==      \* setStart / setEnd as coded
    /\ r \in 1..Len(rgs) /\ n \in Containers
    /\ LET rg == rgs[r]
           a == IF toStart THEN "rg.setStart" ELSE "rg.setEnd"
           res == IF rg.det THEN "INVALID_STATE_ERR"
                  ELSE IF off > BLen(W0, n) THEN "INDEX_SIZE_ERR"
                  ELSE IF DocOf(n) # rg.doc THEN "WRONG_DOCUMENT_ERR" ELSE "ok"
           new == IF res = "WRONG_DOCUMENT_ERR" THEN Collapse(rg, toStart)
                  ELSE IF res # "ok" THEN rg
                  ELSE NormRg(W0, IF toStart THEN [rg EXCEPT !.sc = n, !.so = off] ELSE [rg EXCEPT !.ec = n, !.eo = off], toStart)
       IN /\ rgs' = [rgs EXCEPT ![r] = new]
          /\ VDone(a, <<r, n, off>>, "", <<>>, res, <<>>)
    /\ UNCHANGED <<its, lss, wks>>
RgCollapse(r, toStart) ==
    /\ r \in 1..Len(rgs) /\ ~rgs[r].det
    /\ rgs' = [rgs EXCEPT ![r] = Collapse(@, toStart)]
    /\ UNCHANGED <<its, lss, wks>>
    /\ VDone("rg.collapse", <<r, B(toStart)>>, "", <<>>, "ok", <<>>)
CmpCode(c) == CASE c = "lt" -> 0 [] c = "eq" -> 1 [] c = "gt" -> 2      \* compareBoundaryPoints result + 1
RgCompare(r, q, how) ==           \* how: 0 START_TO_START, 1 START_TO_END, 2 END_TO_END, 3 END_TO_START (DOMRange::CompareHow)
    /\ r \in 1..Len(rgs) /\ q \in 1..Len(rgs) /\ ~rgs[r].det /\ ~rgs[q].det /\ rgs[r].doc = rgs[q].doc
    /\ LET A == rgs[r] S == rgs[q]
           a == IF how \in {0, 3} THEN <<A.sc, A.so>> ELSE <<A.ec, A.eo>>
           b == IF how \in {0, 1} THEN <<S.sc, S.so>> ELSE <<S.ec, S.eo>>
       IN VDone("rg.compareBoundaryPoints", <<r, q, how>>, "", <<>>, "ok", <<CmpCode(CmpBP(W0, a[1], a[2], b[1], b[2]))>>)
    /\ UNCHANGED views
RgDetach(r) == /\ r \in 1..Len(rgs) /\ ~rgs[r].det
               /\ rgs' = [rgs EXCEPT ![r].det = TRUE]
               /\ UNCHANGED <<its, lss, wks>>
               /\ VDone("rg.detach", <<r>>, "", <<>>, "ok", <<>>)

ViewNext ==
    \/ \E root \in Live, show \in Shows, filt \in Filts : CreateIterator(root, show, filt)
    \/ \E i \in 1..NIt : ItNext(i) \/ ItPrev(i) \/ ItDetach(i)
    \/ \E root \in Live, nm \in ListNames : CreateList(root, nm)
    \/ \E l \in 1..NLs : ListLength(l) \/ \E idx \in 0..3 : ListItem(l, idx)
    \/ \E d \in Docs : CreateRange(d)
    \/ \E r \in 1..NRg, n \in Live, off \in 0..(MaxData + 1), b \in BOOLEAN : RgSet(r, n, off, b)
    \/ \E r \in 1..NRg, b \in BOOLEAN : RgCollapse(r, b)
    \/ \E r \in 1..NRg, q \in 1..NRg, how \in 0..3 : RgCompare(r, q, how)
    \/ \E r \in 1..NRg : RgDetach(r)

VInit == Init /\ its = <<>> /\ rgs = <<>> /\ lss = <<>> /\ wks = <<>> /\ ret = <<>>
VNext == nops < MaxOps /\ nops' = nops + 1 /\ (VMutNext \/ VOtherNext \/ ViewNext)
VSpec == VInit /\ [][VNext]_vvars

---------------------------------------------------------------------------
\* declarative layer (property C14 on the specification)

IsViewOp(a) == a \in {"createNodeIterator", "it.nextNode", "it.previousNode", "it.detach", "getElementsByTagName", "list.item",
                      "list.getLength", "createRange", "rg.setStart", "rg.setEnd", "rg.collapse", "rg.compareBoundaryPoints", "rg.detach",
                      "createTreeWalker", "tw.step", "init"}
LiveIts == {i \in 1..Len(its) : ~its[i].det}
LiveRgs == {r \in 1..Len(rgs) : ~rgs[r].det}

\* the reference node of an iterator is inside the subtree of its root
IteratorRefLive == \A i \in LiveIts : its[i].cur = 0 \/ AncSW(W0, its[i].root, its[i].cur)

\* position of an iterator as a gap in the document-order list of its root's subtree
GapOf(W, it) == IF it.cur = 0 THEN 0
                ELSE LET i == PosIn(PreSeqW(W, it.root), it.cur) IN IF it.fwd THEN i ELSE i - 1
NextDecl(W, it) == LET s == PreSeqW(W, it.root)
                       c == {j \in (GapOf(W, it) + 1)..Len(s) : ItAcc(W, it, s[j])}
                   IN IF c = {} THEN 0 ELSE s[CHOOSE j \in c : \A j2 \in c : j <= j2]
PrevDecl(W, it) == LET s == PreSeqW(W, it.root)
                       c == {j \in 1..GapOf(W, it) : ItAcc(W, it, s[j])}
                   IN IF c = {} THEN 0 ELSE s[CHOOSE j \in c : \A j2 \in c : j >= j2]
IterMatchesDocOrder == \A i \in LiveIts : /\ ItNextW(W0, its[i]).r = NextDecl(W0, its[i])
                                          /\ ItPrevW(W0, its[i]).r = PrevDecl(W0, its[i])

\* a mutation never moves a node that stays in the iterated subtree (and is not itself moved) across the iterator
MovedByLast == IF last'.a \in {"insertBefore", "appendChild", "replaceChild"} /\ last'.res = "ok" THEN DescW(W0, last'.args[2]) ELSE {}
BeforeSet(W, it) == LET s == PreSeqW(W, it.root) IN {s[j] : j \in 1..GapOf(W, it)}
IterStable == [][~IsViewOp(last'.a) => \A i \in LiveIts : i \in 1..Len(its') /\ ~its'[i].det =>
                    \A n \in (DescW(W0, its[i].root) \cap DescW(W1, its[i].root)) \ MovedByLast :
                        (n \in BeforeSet(W0, its[i])) <=> (n \in BeforeSet(W1, its'[i]))]_vvars

\* range boundary points are valid
RangeValid == \A r \in LiveRgs : LET rg == rgs[r] IN
    /\ rg.sc \in Containers /\ rg.ec \in Containers
    /\ DocOf(rg.sc) = rg.doc /\ DocOf(rg.ec) = rg.doc
    /\ RootW(W0, rg.sc) = RootW(W0, rg.ec)
    /\ rg.so <= BLen(W0, rg.sc) /\ rg.eo <= BLen(W0, rg.ec)
    /\ LexCmp(KeyW(W0, rg.sc, rg.so), KeyW(W0, rg.ec, rg.eo)) \in {"lt", "eq"}

\* the coded comparison of boundary points is document order
CmpMatchesDocOrder == \A r \in LiveRgs : \A a \in Containers, ao \in 0..2 :
    (RootW(W0, a) = RootW(W0, rgs[r].sc) /\ ao <= BLen(W0, a))
       => CmpBP(W0, a, ao, rgs[r].sc, rgs[r].so) = LexCmp(KeyW(W0, a, ao), KeyW(W0, rgs[r].sc, rgs[r].so))

\* live lists enumerate exactly the matching elements in document order, whatever the cache holds
ListsMatchTree == \A l \in 1..Len(lss) : LET m == MatchList(W0, lss[l]) IN
    /\ \A idx \in 0..MaxId : CacheItem(W0, lss[l], idx).r = (IF idx + 1 <= Len(m) THEN m[idx + 1] ELSE 0)
    /\ ListLen(W0, lss[l]).r = Len(m)

\* DOM Range 2.12 in one-shot form: where a boundary point (n, off) goes under the mutation just performed
DelNodeBP(W, bp, x) == LET p == W.p[x] i == Idx0W(W, x) IN
    IF AncSW(W, x, bp[1]) THEN <<p, i>> ELSE IF bp[1] = p /\ bp[2] > i THEN <<p, bp[2] - 1>> ELSE bp
InsNodesBP(bp, p, i, m) == IF bp[1] = p /\ bp[2] > i THEN <<p, bp[2] + m>> ELSE bp
InsertBP(bp, p, c, r) ==
    IF r = c THEN bp
    ELSE IF kind[c] = "frag"
         THEN IF AncSW(W0, c, bp[1]) THEN <<c, 0>>
              ELSE InsNodesBP(bp, p, IF r = 0 THEN Len(kids[p]) ELSE PosIn(kids[p], r) - 1, Len(kids[c]))
    ELSE LET b1 == IF parent[c] # 0 THEN DelNodeBP(W0, bp, c) ELSE bp
             rest == Remove(kids[p], c)
         IN InsNodesBP(b1, p, IF r = 0 THEN Len(rest) ELSE PosIn(rest, r) - 1, 1)
WAfterIns(p, c, r) == (Apply(InsEv(p, c, r), W0, [its |-> <<>>, rgs |-> <<>>, lss |-> <<>>])).w
NormBP(bp, n) ==
    LET scope == Range(NormScope(n))
        droppedOf(m) == Range(kids[m]) \ Range(NormKids(kids[m], <<>>))
        newOff(m, off) == off - Cardinality({i \in 1..off : kids[m][i] \in droppedOf(m)})
    IN IF parent[bp[1]] \in scope /\ bp[1] \in droppedOf(parent[bp[1]]) THEN <<parent[bp[1]], newOff(parent[bp[1]], PosIn(kids[parent[bp[1]]], bp[1]) - 1)>>
       ELSE IF bp[1] \in scope THEN <<bp[1], newOff(bp[1], bp[2])>>
       ELSE bp
MoveBP(bp) ==
    LET o == last' g == o.args IN
    IF o.res # "ok" THEN bp
    ELSE CASE o.a = "insertBefore" -> InsertBP(bp, g[1], g[2], g[3])
           [] o.a = "appendChild" -> InsertBP(bp, g[1], g[2], 0)
           [] o.a = "removeChild" -> DelNodeBP(W0, bp, g[2])
           [] o.a = "adoptNode" -> IF kind[g[2]] # "attr" /\ parent[g[2]] # 0 THEN DelNodeBP(W0, bp, g[2]) ELSE bp
           [] o.a = "replaceChild" -> DelNodeBP(WAfterIns(g[1], g[2], g[3]), InsertBP(bp, g[1], g[2], g[3]), g[3])
           [] o.a = "insertData" -> IF bp[1] = g[1] /\ bp[2] > g[2] THEN <<bp[1], bp[2] + Len(o.s)>> ELSE bp
           [] o.a = "deleteData" -> IF bp[1] = g[1] THEN <<bp[1], DelOff(bp[2], g[2], Min(g[3], Len(data[g[1]]) - g[2]))>> ELSE bp
           [] o.a = "replaceData" -> IF bp[1] = g[1]
                                     THEN LET d == DelOff(bp[2], g[2], Min(g[3], Len(data[g[1]]) - g[2]))
                                          IN <<bp[1], IF d > g[2] THEN d + Len(o.s) ELSE d>>
                                     ELSE bp
           [] o.a = "setNodeValue" -> IF bp[1] = g[1] /\ kind[g[1]] # "attr" THEN <<bp[1], 0>> ELSE bp
           [] o.a = "splitText" -> IF bp[1] = g[1] /\ bp[2] > g[2]
                                   THEN (IF parent[g[1]] # 0 THEN <<nextId, bp[2] - g[2]>> ELSE <<bp[1], g[2]>>)
                                   ELSE IF parent[g[1]] # 0 /\ bp[1] = parent[g[1]] /\ bp[2] >= PosIn(kids[parent[g[1]]], g[1]) THEN <<bp[1], bp[2] + 1>>
                                   ELSE bp
           [] o.a = "normalize" -> NormBP(bp, g[1])
           [] OTHER -> bp
RangeMovesAsSpecified ==
    [][~IsViewOp(last'.a) => \A r \in LiveRgs : r \in 1..Len(rgs') /\
            <<rgs'[r].sc, rgs'[r].so>> = MoveBP(<<rgs[r].sc, rgs[r].so>>) /\ <<rgs'[r].ec, rgs'[r].eo>> = MoveBP(<<rgs[r].ec, rgs[r].eo>>)]_vvars

ViewInv == IteratorRefLive /\ IterMatchesDocOrder /\ RangeValid /\ CmpMatchesDocOrder /\ ListsMatchTree

---------------------------------------------------------------------------
\* observation (binding contract): what the harness can read after a step without disturbing hidden state ...
ObsOf(W, I, R) == [rgs |-> [r \in 1..Len(R) |-> IF R[r].det THEN <<>> ELSE <<R[r].sc, R[r].so, R[r].ec, R[r].eo>>],
                   its |-> [i \in 1..Len(I) |-> IF I[i].det THEN [fw |-> <<>>, bw |-> <<>>]
                                                 ELSE [fw |-> FwdSeq(W, I[i]), bw |-> BwdSeq(W, I[i])]]]
ObsNext == ObsOf(W1, its', rgs')
VView == <<tree, its, rgs, lss, wks>>
=============================================================================
