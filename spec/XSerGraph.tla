------------------------------ MODULE XSerGraph ------------------------------
(* C16 - XSerializeEngine object-graph store/load protocol (xercesc/internal/XSerializeEngine.cpp).

   OPERATIONAL LAYER (shaped like the code; one action per observable step of the engine)
     store : WriteLevel, StoreNull / StoreRef / StoreNew  (= write(XSerializable p): null tag, back-reference tag,
             write(XProtoType p) [new-class tag + name | class tag] + addStorePool + serialize()),
             StorePrim (operator<<), StoreBytes (write(bytes,len)), EndObject, FinishStore (flush)
     load  : ReadLevel (XMLGrammarPoolImpl::deserializeGrammars: level check BEFORE anything else is read),
             LoadObject (= read(XProtoType p): tag decision, XProtoType::load class-name check, addLoadPool, serialize()),
             LoadPrim (operator>>), LoadBytes (read(bytes,len)), EndObjectL, FinishLoad
     block buffer : WPrim/WBytes (checkAndFlushBuffer, alignBufCur, flushBuffer) and RPrim/RBytes (checkAndFillBuffer,
             fillBuffer) compute the absolute stream offset of every token for an arbitrary block size.
             RBytes has two variants: "coded" (what read(bytes,len) does) and "sound".
   The object graph is generated lazily by the store actions themselves (at every pointer site the target is chosen:
   null, any object already stored = sharing / cycle / self loop, or a fresh object), which enumerates exactly the
   graphs whose objects are numbered in store order - every reachable graph up to renaming.

   DECLARATIVE LAYER
     StoreFn(g)       the stream as a recursive function of the graph (no stack, no buffer), offsets by folding sizes
     Iso(g,h)         graph isomorphism including sharing
     RoundTrip        Load(Store(g)) is isomorphic to g;  Restore: StoreFn(Load(Store(g))) = Store(g)
     LevelRejected    a stream with a different level stamp => XSerializationException before any object is read
     ClassRejected    a stream whose class name differs from the prototype's => XSerializationException at that object
     FieldSymmetry    per object, the operations performed in load mode equal those performed in store mode
     PositionsAgree   every token is read at the offset it was written at (for every block size)
*)
EXTENDS Integers, Sequences, FiniteSets, TLC

CONSTANTS MaxObjs,        \* bound on the number of objects of a graph
          BlockSizes,     \* set of buffer sizes (bytes)
          BytesLens,      \* set of lengths for the byte-run field
          Tampers,        \* subset of {"none","level","clsname"}: what is done to the stream between store and load
          ReadVariant,    \* "coded" | "sound"   (read(bytes,len) when the run ends exactly at a block end)
          AsymClass       \* "" or a class whose LOAD layout drops its first primitive (negative configurations only)

Level == 7                 \* XERCES_GRAMMAR_SERIALIZATION_LEVEL of this build (any constant)

\* ---------------------------------------------------------------------------------------------
\* classes and their serialize() methods: a layout is the sequence of operations serialize() performs
\* ---------------------------------------------------------------------------------------------
Classes == {"VA", "VBx"}
RootClass == "VA"
F(k, c) == [k |-> k, c |-> c]
Layout(c) == IF c = "VA" THEN << F("int", ""), F("ptr", "VA"), F("bytes", ""), F("ptr", "VBx") >>
                         ELSE << F("ptr", "VA"), F("ulong", "") >>
StoreLayout(c) == Layout(c)
LoadLayout(c) == IF c = AsymClass
                 THEN LET l == Layout(c) i == CHOOSE j \in 1..Len(l) : l[j].k \in {"int", "ulong"} /\ \A m \in 1..(j-1) : l[m].k \notin {"int", "ulong"}
                      IN SubSeq(l, 1, i - 1) \o SubSeq(l, i + 1, Len(l))
                 ELSE Layout(c)
NameLen(c) == IF c = "VA" THEN 2 ELSE 3
Size(k) == IF k = "ulong" THEN 8 ELSE 4          \* tags, level, int: 4 bytes aligned 4; unsigned long: 8 aligned 8

\* ---------------------------------------------------------------------------------------------
\* tokens:  [k, c, n, off]   k in level | null | ref | newclass | class | int | ulong | bytes
\* ---------------------------------------------------------------------------------------------
Tok(k, c, n, off) == [k |-> k, c |-> c, n |-> n, off |-> off]
IsPrimKind(k) == k \in {"level", "null", "ref", "newclass", "class", "int", "ulong"}
TSize(k) == IF k = "ulong" THEN 8 ELSE 4

\* block buffer, writer side.  w = [blk |-> blocks flushed, cur |-> fBufCur - fBufStart]
WPrimA(w, B, s, a) ==        \* checkAndFlushBuffer(calBytesNeeded(s)); alignBufCur(a); store; fBufCur += s   (a = 1: writeSize/writeInt64, memcpy, no alignment)
    LET adj == (a - (w.cur % a)) % a
        fl  == w.cur + adj + s > B
        blk == IF fl THEN w.blk + 1 ELSE w.blk
        cur == IF fl THEN 0 ELSE w.cur + adj
    IN [w |-> [blk |-> blk, cur |-> cur + s], off |-> blk * B + cur]
WPrim(w, B, s) == WPrimA(w, B, s, s)
WBytes(w, B, n) ==           \* write(bytes, n)
    LET avail == B - w.cur IN
    IF n <= avail THEN [w |-> [blk |-> w.blk, cur |-> w.cur + n], off |-> w.blk * B + w.cur]
    ELSE LET rem == n - avail IN
         [w |-> [blk |-> w.blk + 1 + (rem \div B), cur |-> rem % B], off |-> w.blk * B + w.cur]

\* reader side.  r = [blk |-> blocks filled (>= 1), cur, max]
RPrimA(r, B, s, a) ==        \* checkAndFillBuffer(calBytesNeeded(s)); alignBufCur(a); fetch; fBufCur += s
    LET adj == (a - (r.cur % a)) % a
        fi  == r.cur + adj + s > r.max
        blk == IF fi THEN r.blk + 1 ELSE r.blk
        cur == IF fi THEN 0 ELSE r.cur + adj
    IN [r |-> [blk |-> blk, cur |-> cur + s, max |-> B], off |-> (blk - 1) * B + cur]
RPrim(r, B, s) == RPrimA(r, B, s, s)
RBytes(r, B, n) ==           \* read(bytes, n)
    LET avail == r.max - r.cur IN
    IF n <= avail THEN [r |-> [blk |-> r.blk, cur |-> r.cur + n, max |-> r.max], off |-> (r.blk - 1) * B + r.cur, exact |-> FALSE]
    ELSE LET rem  == n - avail
             full == rem \div B
             last == rem % B
             blk  == r.blk + full + (IF last > 0 THEN 1 ELSE 0)
             \* "coded": after the while loop that copies whole blocks fBufCur is left at fBufStart although the block
             \* just filled has been consumed entirely; "sound": the block counts as consumed.
             cur  == IF last = 0 /\ ReadVariant = "sound" THEN B ELSE last
         IN [r |-> [blk |-> blk, cur |-> cur, max |-> B], off |-> (r.blk - 1) * B + r.cur, exact |-> (last = 0)]

\* ---------------------------------------------------------------------------------------------
\* state
\* ---------------------------------------------------------------------------------------------
VARIABLES pc,        \* "level" "store" "rlevel" "load" "done" "rejected" "corrupt"
          B, tamper,
          g,         \* the graph: [cls: Seq(class), ptr: Seq(Seq(0..n)), bl: Seq(len), root]
          spool,     \* store pool: Seq of [k: "obj"|"cls", o, c]   (index = id = fObjectCount)
          sstack,    \* frames [o, f]: object being serialised and index of its next field
          srootDone,
          stream,    \* Seq of tokens
          w,         \* writer buffer
          sops,      \* per object: sequence of field kinds performed by serialize() in store mode
          h, lpool, lstack, lrootDone, ri, r, lops,      \* the same for load; ri = index of the next token
          hitExact,  \* some byte run ended exactly at a block end on load (the case where the variants differ)
          why        \* reason of rejection: "" | "level" | "clsname" | "clsidx" | "ref"
svars == <<g, spool, sstack, srootDone, stream, w, sops>>
lvars == <<h, lpool, lstack, lrootDone, ri, r, lops, hitExact, why>>
vars == <<pc, B, tamper, svars, lvars>>

EmptyGraph == [cls |-> <<>>, ptr |-> <<>>, bl |-> <<>>, root |-> 0]
Init == /\ pc = "level" /\ B \in BlockSizes /\ tamper = "none"
        /\ g = EmptyGraph /\ spool = <<>> /\ sstack = <<>> /\ srootDone = FALSE /\ stream = <<>>
        /\ w = [blk |-> 0, cur |-> 0] /\ sops = <<>>
        /\ h = EmptyGraph /\ lpool = <<>> /\ lstack = <<>> /\ lrootDone = FALSE /\ ri = 1
        /\ r = [blk |-> 0, cur |-> 0, max |-> 0] /\ lops = <<>> /\ hitExact = FALSE /\ why = ""

Top(s) == s[Len(s)]
Pop(s) == SubSeq(s, 1, Len(s) - 1)
SetTop(s, x) == [s EXCEPT ![Len(s)] = x]
PoolIdx(pool, k, x) == IF \E i \in 1..Len(pool) : pool[i].k = k /\ pool[i].x = x
                       THEN CHOOSE i \in 1..Len(pool) : pool[i].k = k /\ pool[i].x = x ELSE 0
PE(k, x) == [k |-> k, x |-> x]          \* pool entry; x = object number (as string-free int) or class name
ObjKey(o) == <<"o", o>>
ClsKey(c) == <<"c", c>>

\* emit a sequence of (kind, class, n) triples through the writer buffer
RECURSIVE Emit(_, _, _, _)
Emit(ws, toks, items, bs) ==
    IF items = <<>> THEN [w |-> ws, toks |-> toks]
    ELSE LET it == Head(items)
             x  == IF it[1] = "bytes" THEN WBytes(ws, bs, it[3]) ELSE WPrim(ws, bs, TSize(it[1]))
         IN Emit(x.w, Append(toks, Tok(it[1], it[2], it[3], x.off)), Tail(items), bs)

\* write(XProtoType p): items and new pool
ProtoItems(pool, c) ==
    LET i == PoolIdx(pool, "cls", ClsKey(c)) IN
    IF i # 0 THEN [items |-> << <<"class", c, i>> >>, pool |-> pool]
    ELSE [items |-> << <<"newclass", c, 0>>, <<"ulong", "", NameLen(c)>>, <<"bytes", c, NameLen(c)>> >>,
          pool |-> Append(pool, PE("cls", ClsKey(c)))]

\* the pointer site the store is at: the root, or the next field of the top frame when that field is a pointer
AtRootS == sstack = <<>> /\ ~srootDone
SField == LET t == Top(sstack) IN StoreLayout(g.cls[t.o])[t.f]
AtPtrS == sstack # <<>> /\ Top(sstack).f <= Len(StoreLayout(g.cls[Top(sstack).o])) /\ SField.k = "ptr"
SiteClassS == IF AtRootS THEN RootClass ELSE SField.c

\* record the chosen target in the graph and step over the pointer field
Target(t) == IF AtRootS THEN [g EXCEPT !.root = t]
             ELSE [g EXCEPT !.ptr[Top(sstack).o] = Append(@, t)]
StepOver == IF AtRootS THEN sstack ELSE SetTop(sstack, [Top(sstack) EXCEPT !.f = @ + 1])
NoteS(k) == IF AtRootS THEN sops ELSE [sops EXCEPT ![Top(sstack).o] = Append(@, k)]

WriteLevel ==
    /\ pc = "level"
    /\ LET e == Emit(w, stream, << <<"level", "", Level>> >>, B) IN stream' = e.toks /\ w' = e.w
    /\ pc' = "store"
    /\ UNCHANGED <<B, tamper, g, spool, sstack, srootDone, sops, lvars>>

StoreNull ==
    /\ pc = "store" /\ (AtRootS \/ AtPtrS)
    /\ LET e == Emit(w, stream, << <<"null", "", 0>> >>, B) IN stream' = e.toks /\ w' = e.w
    /\ g' = Target(0) /\ sstack' = StepOver /\ sops' = NoteS("ptr")
    /\ srootDone' = (srootDone \/ AtRootS)
    /\ UNCHANGED <<pc, B, tamper, spool, lvars>>

StoreRef(o) ==               \* sharing, cycles, self loops: the object is in the store pool already
    /\ pc = "store" /\ (AtRootS \/ AtPtrS)
    /\ o \in 1..Len(g.cls) /\ g.cls[o] = SiteClassS
    /\ LET i == PoolIdx(spool, "obj", ObjKey(o))
           e == Emit(w, stream, << <<"ref", "", i>> >>, B)
       IN i # 0 /\ stream' = e.toks /\ w' = e.w
    /\ g' = Target(o) /\ sstack' = StepOver /\ sops' = NoteS("ptr")
    /\ srootDone' = (srootDone \/ AtRootS)
    /\ UNCHANGED <<pc, B, tamper, spool, lvars>>

HasBytes(c) == \E i \in 1..Len(Layout(c)) : Layout(c)[i].k = "bytes"
StoreNew(n) ==               \* a fresh object of the site's class; n = length of its byte run (written by its int field)
    /\ pc = "store" /\ (AtRootS \/ AtPtrS)
    /\ n \in (IF HasBytes(SiteClassS) THEN BytesLens ELSE {0})
    /\ Len(g.cls) < MaxObjs
    /\ LET c  == SiteClassS
           o  == Len(g.cls) + 1
           p  == ProtoItems(spool, c)
           e  == Emit(w, stream, p.items, B)
           g1 == Target(o)
       IN /\ stream' = e.toks /\ w' = e.w
          /\ spool' = Append(p.pool, PE("obj", ObjKey(o)))
          /\ g' = [g1 EXCEPT !.cls = Append(@, c), !.ptr = Append(@, <<>>), !.bl = Append(@, n)]
          /\ sstack' = Append(StepOver, [o |-> o, f |-> 1])
          /\ sops' = Append(NoteS("ptr"), <<>>)
    /\ srootDone' = (srootDone \/ AtRootS)
    /\ UNCHANGED <<pc, B, tamper, lvars>>

StorePrim ==
    /\ pc = "store" /\ sstack # <<>> /\ Top(sstack).f <= Len(StoreLayout(g.cls[Top(sstack).o]))
    /\ SField.k \in {"int", "ulong"}
    /\ LET o == Top(sstack).o
           e == Emit(w, stream, << <<SField.k, "", IF SField.k = "int" THEN g.bl[o] ELSE o>> >>, B)   \* int = length of the byte run, ulong = object number
       IN stream' = e.toks /\ w' = e.w
    /\ sstack' = StepOver /\ sops' = NoteS(SField.k)
    /\ UNCHANGED <<pc, B, tamper, g, spool, srootDone, lvars>>

StoreBytes ==
    /\ pc = "store" /\ sstack # <<>> /\ Top(sstack).f <= Len(StoreLayout(g.cls[Top(sstack).o]))
    /\ SField.k = "bytes"
    /\ LET e == Emit(w, stream, << <<"bytes", "", g.bl[Top(sstack).o]>> >>, B) IN stream' = e.toks /\ w' = e.w
    /\ sstack' = StepOver /\ sops' = NoteS("bytes")
    /\ UNCHANGED <<pc, B, tamper, g, spool, srootDone, lvars>>

EndObject ==                 \* serialize() returns
    /\ pc = "store" /\ sstack # <<>> /\ Top(sstack).f > Len(StoreLayout(g.cls[Top(sstack).o]))
    /\ sstack' = Pop(sstack)
    /\ UNCHANGED <<pc, B, tamper, g, spool, srootDone, stream, w, sops, lvars>>

\* what happens to the bytes between store and load
Tampered(s, tm) == CASE tm = "level" -> [s EXCEPT ![1].n = Level + 1]
                 [] tm = "clsname" /\ (\E i \in 1..Len(s) : s[i].k = "bytes" /\ s[i].c # "") ->
                        LET i == CHOOSE j \in 1..Len(s) : s[j].k = "bytes" /\ s[j].c # "" /\ \A m \in 1..(j-1) : ~(s[m].k = "bytes" /\ s[m].c # "")
                        IN [s EXCEPT ![i].c = "??"]
                 [] OTHER -> s

FinishStore ==               \* ~XSerializeEngine: flush(); then the loading engine's constructor fills the first block
    /\ pc = "store" /\ sstack = <<>> /\ srootDone
    /\ w' = [blk |-> w.blk + 1, cur |-> 0]
    /\ tamper' \in Tampers
    /\ stream' = Tampered(stream, tamper')
    /\ r' = [blk |-> 1, cur |-> 0, max |-> B]
    /\ pc' = "rlevel"
    /\ UNCHANGED <<B, g, spool, sstack, srootDone, sops, h, lpool, lstack, lrootDone, ri, lops, hitExact, why>>

\* ---------------------------------------------------------------------------------------------
\* load
\* ---------------------------------------------------------------------------------------------
NoTok == Tok("garbage", "", 0, -1)
\* the reader fetches at ITS offset: it obtains token i iff that is where token i was written, otherwise garbage
At(i, off) == IF i <= Len(stream) /\ stream[i].off = off THEN stream[i] ELSE NoTok
GetPrimAt(rr, i, s) == LET x == RPrim(rr, B, s) IN [r |-> x.r, t |-> At(i, x.off)]
GetBytesAt(rr, i, n) == LET x == RBytes(rr, B, n) IN [r |-> x.r, t |-> At(i, x.off), exact |-> x.exact]
GetPrim(s) == GetPrimAt(r, ri, s)
GetBytes(n) == GetBytesAt(r, ri, n)

ReadLevel ==
    /\ pc = "rlevel"
    /\ LET x == GetPrim(4) IN
       /\ r' = x.r /\ ri' = ri + 1
       /\ IF x.t.k = "level" /\ x.t.n = Level THEN pc' = "load" /\ why' = ""
          ELSE pc' = "rejected" /\ why' = "level"          \* XSerializationException(XSer_Storer_Loader_Mismatch)
    /\ UNCHANGED <<B, tamper, svars, h, lpool, lstack, lrootDone, lops, hitExact>>

AtRootL == lstack = <<>> /\ ~lrootDone
LField == LET t == Top(lstack) IN LoadLayout(h.cls[t.o])[t.f]
AtPtrL == lstack # <<>> /\ Top(lstack).f <= Len(LoadLayout(h.cls[Top(lstack).o])) /\ LField.k = "ptr"
SiteClassL == IF AtRootL THEN RootClass ELSE LField.c
TargetL(t) == IF AtRootL THEN [h EXCEPT !.root = t] ELSE [h EXCEPT !.ptr[Top(lstack).o] = Append(@, t)]
StepOverL == IF AtRootL THEN lstack ELSE SetTop(lstack, [Top(lstack) EXCEPT !.f = @ + 1])
NoteL(k) == IF AtRootL THEN lops ELSE [lops EXCEPT ![Top(lstack).o] = Append(@, k)]
Fail(reason) == pc' = reason.pc /\ why' = reason.why
Corrupt == [pc |-> "corrupt", why |-> "garbage"]
Reject(y) == [pc |-> "rejected", why |-> y]

NewObjL(c, pool1, r1, n, ex) ==    \* create the object from the prototype, addLoadPool, run serialize() in load mode
    LET o == Len(h.cls) + 1 h1 == TargetL(o) IN
    /\ h' = [h1 EXCEPT !.cls = Append(@, c), !.ptr = Append(@, <<>>), !.bl = Append(@, 0)]
    /\ lpool' = Append(pool1, PE("obj", ObjKey(o)))
    /\ lstack' = Append(StepOverL, [o |-> o, f |-> 1])
    /\ lops' = Append(NoteL("ptr"), <<>>)
    /\ r' = r1 /\ ri' = ri + n /\ pc' = "load" /\ why' = ""
    /\ lrootDone' = (lrootDone \/ AtRootL)
    /\ hitExact' = (hitExact \/ ex)

LoadObject ==                \* read(XProtoType p) at a pointer site whose static class is SiteClassL
    /\ pc = "load" /\ (AtRootL \/ AtPtrL)
    /\ LET x == GetPrim(4) tg == x.t c == SiteClassL IN
       CASE tg.k = "null" ->
              /\ h' = TargetL(0) /\ lstack' = StepOverL /\ lops' = NoteL("ptr") /\ r' = x.r /\ ri' = ri + 1
              /\ lrootDone' = (lrootDone \/ AtRootL) /\ UNCHANGED <<pc, lpool, hitExact, why>>
         [] tg.k = "ref" ->
              IF tg.n \in 1..Len(lpool) /\ lpool[tg.n].k = "obj"
              THEN /\ h' = TargetL(lpool[tg.n].x[2]) /\ lstack' = StepOverL /\ lops' = NoteL("ptr") /\ r' = x.r /\ ri' = ri + 1
                   /\ lrootDone' = (lrootDone \/ AtRootL) /\ UNCHANGED <<pc, lpool, hitExact, why>>
              ELSE Fail(Reject("ref")) /\ UNCHANGED <<h, lpool, lstack, lrootDone, ri, r, lops, hitExact>>
         [] tg.k = "class" ->         \* class tag: the index must denote an entry of the load pool
              IF tg.n \in 1..Len(lpool) /\ lpool[tg.n].k = "cls" /\ lpool[tg.n].x = ClsKey(c)
              THEN NewObjL(c, lpool, x.r, 1, FALSE)
              ELSE Fail(Reject("clsidx")) /\ UNCHANGED <<h, lpool, lstack, lrootDone, ri, r, lops, hitExact>>
         [] tg.k = "newclass" ->      \* XProtoType::load: name length and name must equal the expected prototype's
              LET y == GetPrimAt(x.r, ri + 1, 8)
                  z == GetBytesAt(y.r, ri + 2, NameLen(c))
              IN IF y.t.k = "ulong" /\ y.t.n = NameLen(c) /\ z.t.k = "bytes" /\ z.t.c = c
                 THEN NewObjL(c, Append(lpool, PE("cls", ClsKey(c))), z.r, 3, z.exact)
                 ELSE Fail(Reject("clsname")) /\ UNCHANGED <<h, lpool, lstack, lrootDone, ri, r, lops, hitExact>>
         [] OTHER -> Fail(Corrupt) /\ UNCHANGED <<h, lpool, lstack, lrootDone, ri, r, lops, hitExact>>
    /\ UNCHANGED <<B, tamper, svars>>

LoadPrim ==
    /\ pc = "load" /\ lstack # <<>> /\ Top(lstack).f <= Len(LoadLayout(h.cls[Top(lstack).o]))
    /\ LField.k \in {"int", "ulong"}
    /\ LET x == GetPrim(Size(LField.k)) IN
       IF x.t.k = LField.k
       THEN /\ r' = x.r /\ ri' = ri + 1 /\ lstack' = StepOverL /\ lops' = NoteL(LField.k) /\ UNCHANGED <<pc, why>>
            /\ h' = IF LField.k = "int" THEN [h EXCEPT !.bl[Top(lstack).o] = x.t.n] ELSE h
       ELSE Fail(Corrupt) /\ UNCHANGED <<r, ri, lstack, lops, h>>
    /\ UNCHANGED <<B, tamper, svars, lpool, lrootDone, hitExact>>

LoadBytes ==                 \* the length of the run was read before (the int field)
    /\ pc = "load" /\ lstack # <<>> /\ Top(lstack).f <= Len(LoadLayout(h.cls[Top(lstack).o]))
    /\ LField.k = "bytes"
    /\ LET o == Top(lstack).o
           n == h.bl[o]
           x == GetBytes(n) IN
       IF x.t.k = "bytes" /\ x.t.n = n
       THEN /\ r' = x.r /\ ri' = ri + 1 /\ lstack' = StepOverL /\ lops' = NoteL("bytes")
            /\ hitExact' = (hitExact \/ x.exact) /\ UNCHANGED <<pc, why>>
       ELSE Fail(Corrupt) /\ UNCHANGED <<r, ri, lstack, lops, hitExact>>
    /\ UNCHANGED <<B, tamper, svars, h, lpool, lrootDone>>

EndObjectL ==
    /\ pc = "load" /\ lstack # <<>> /\ Top(lstack).f > Len(LoadLayout(h.cls[Top(lstack).o]))
    /\ lstack' = Pop(lstack)
    /\ UNCHANGED <<pc, B, tamper, svars, h, lpool, lrootDone, ri, r, lops, hitExact, why>>

FinishLoad ==
    /\ pc = "load" /\ lstack = <<>> /\ lrootDone
    /\ pc' = "done"
    /\ UNCHANGED <<B, tamper, svars, lvars>>

Next == \/ WriteLevel \/ StoreNull \/ (\E o \in 1..MaxObjs : StoreRef(o)) \/ (\E n \in BytesLens \cup {0} : StoreNew(n)) \/ StorePrim
        \/ StoreBytes \/ EndObject \/ FinishStore
        \/ ReadLevel \/ LoadObject \/ LoadPrim \/ LoadBytes \/ EndObjectL \/ FinishLoad
Spec == Init /\ [][Next]_vars

\* ---------------------------------------------------------------------------------------------
\* DECLARATIVE LAYER
\* ---------------------------------------------------------------------------------------------
\* the stream as a function of the graph: depth-first, st = [pool, items, seen (objects in pool order)]
RECURSIVE SObj(_, _, _, _), SFields(_, _, _, _)
SObj(gr, t, c, st) ==
    IF t = 0 THEN [st EXCEPT !.items = Append(@, <<"null", "", 0>>)]
    ELSE LET i == PoolIdx(st.pool, "obj", ObjKey(t)) IN
         IF i # 0 THEN [st EXCEPT !.items = Append(@, <<"ref", "", i>>)]
         ELSE LET p == ProtoItems(st.pool, gr.cls[t])
                  s1 == [pool |-> Append(p.pool, PE("obj", ObjKey(t))), items |-> st.items \o p.items]
              IN SFields(gr, t, 1, s1)
SFields(gr, o, f, st) ==
    LET lay == Layout(gr.cls[o]) IN
    IF f > Len(lay) THEN st
    ELSE LET fd == lay[f]
             np == Cardinality({j \in 1..f : lay[j].k = "ptr"}) IN
         CASE fd.k = "ptr" -> SFields(gr, o, f + 1, SObj(gr, gr.ptr[o][np], fd.c, st))
           [] fd.k = "bytes" -> SFields(gr, o, f + 1, [st EXCEPT !.items = Append(@, <<"bytes", "", gr.bl[o]>>)])
           [] OTHER -> SFields(gr, o, f + 1, [st EXCEPT !.items = Append(@, <<fd.k, "", IF fd.k = "int" THEN gr.bl[o] ELSE o>>)])
StoreItems(gr) == SObj(gr, gr.root, RootClass, [pool |-> <<>>, items |-> << <<"level", "", Level>> >>]).items
StoreFn(gr, bs) == Emit([blk |-> 0, cur |-> 0], <<>>, StoreItems(gr), bs).toks

Perms(n) == {f \in [1..n -> 1..n] : \A a, b \in 1..n : a # b => f[a] # f[b]}
Ap(f, t) == IF t = 0 THEN 0 ELSE f[t]
Iso(a, b) == /\ Len(a.cls) = Len(b.cls)
             /\ \E f \in Perms(Len(a.cls)) :
                   /\ Ap(f, a.root) = b.root
                   /\ \A o \in 1..Len(a.cls) :
                        /\ a.cls[o] = b.cls[f[o]] /\ a.bl[o] = b.bl[f[o]]
                        /\ Len(a.ptr[o]) = Len(b.ptr[f[o]])
                        /\ \A i \in 1..Len(a.ptr[o]) : Ap(f, a.ptr[o][i]) = b.ptr[f[o]][i]

StoreComplete == pc \notin {"level", "store"}
TypeOK == /\ pc \in {"level", "store", "rlevel", "load", "done", "rejected", "corrupt"}
          /\ w.cur \in 0..B /\ r.cur \in 0..B /\ Len(g.cls) <= MaxObjs /\ Len(h.cls) <= MaxObjs
\* operational store = declarative store (untampered part), for every block size
StoreIsFn == pc = "rlevel" /\ tamper = "none" => stream = StoreFn(g, B)      \* evaluated once per graph, when the store is complete
\* offsets are strictly increasing and inside the blocks written
StreamWellFormed == pc = "rlevel" => \A i \in 1..Len(stream) : /\ (i > 1 => stream[i].off >= stream[i-1].off + (IF stream[i-1].k = "bytes" THEN stream[i-1].n ELSE TSize(stream[i-1].k)))
                                              /\ (IsPrimKind(stream[i].k) => stream[i].off % TSize(stream[i].k) = 0 \/ B % 8 # 0)
\* the load never reads garbage and always finishes: the properties of C16 on the mechanism
NoCorruption == pc # "corrupt"
RoundTrip == pc = "done" => /\ Iso(g, h)
                            /\ StoreFn(h, B) = stream                    \* Store(Load(Store(g))) = Store(g)
                            /\ ri = Len(stream) + 1                       \* the whole stream was consumed
FieldSymmetry == pc = "done" => lops = sops
PoolsAgree == pc \in {"load", "done"} => /\ Len(lpool) <= Len(spool)
                                         /\ \A i \in 1..Len(lpool) : lpool[i] = spool[i]
                                         /\ (pc = "done" => lpool = spool)
LevelRejected == /\ (tamper = "level" => pc \notin {"load", "done"})
                 /\ (pc = "rejected" /\ why = "level" => h = EmptyGraph /\ lpool = <<>> /\ ri = 2)
                 /\ (tamper = "none" => pc # "rejected")
ClassRejected == tamper = "clsname" => /\ pc # "done" \/ ~(\E i \in 1..Len(stream) : stream[i].k = "newclass")
                                       /\ (pc = "rejected" => why = "clsname" /\ h.cls = <<>>)
PositionsAgree == pc \in {"load", "done"} => (r.blk - 1) * B + r.cur =
                     LET t == stream[ri - 1] IN t.off + (IF t.k = "bytes" THEN t.n ELSE TSize(t.k))
Terminal == pc \in {"done", "rejected", "corrupt"}
=============================================================================
