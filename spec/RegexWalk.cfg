SPECIFICATION WSpec
CONSTANTS
  AlphaSeq <- Alpha3
  MaxLen = 4
  Uni = "B"
  MaxOps = 13
INVARIANT EmitW
CHECK_DEADLOCK FALSE
