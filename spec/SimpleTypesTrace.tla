-------------------------- MODULE SimpleTypesTrace --------------------------
(* Binder V for property C09: per-call postconditions.  Every line of the ndjson trace recorded from
   the real code is one call  [f, ty, in, b, out]  ; the step is enabled iff  out  is a result the
   specification allows for that call:  out \in Allowed(f, ty, in, b).
     f = "parse"       in-parse verdict of <e>in</e> against a schema with type ty       out: "valid" | "invalid"
     f = "dv.validate" DatatypeValidator::validate(in) (in contains no whitespace)       out: "valid" | "invalid"
     f = "dv.canon"    DatatypeValidator::getCanonicalRepresentation(in, validate=true)   out: "C:<text>" | "none"
     f = "xsv.validate" XSValue::validate(in, built-in)                                   out: "valid" | "invalid"
     f = "xsv.canon"   XSValue::getCanonicalRepresentation(in, built-in, validate=true)   out: "C:<text>" | "none"
     f = "dv.compare"  DatatypeValidator::compare(in, b)                                  out: "-1" | "0" | "1" | "2"
     f = "x.compare"   XMLDateTime::compare of the two parsed values                      out: "-1" | "0" | "1" | "2" *)
EXTENDS SimpleTypes, IOUtils
Tr == ndJsonDeserialize(IOEnv.TRACE)
VARIABLE l
Verdict(ok) == IF ok THEN "valid" ELSE "invalid"
CmpOut(r, exact) == CASE r = "LT" -> {"-1"} [] r = "EQ" -> {"0"} [] r = "GT" -> {"1"} [] r = "IN" -> IF exact THEN {"2"} ELSE {"-1", "2"}
\* undecided by the recommendation: a date/time literal whose only fault is a seconds field of 60
Undecided(ty, a) == /\ ty.v = "a" /\ BT[ty.b].p = "dt"
                    /\ LET q == WsOp("collapse", a) IN ~DtLex(BT[ty.b].lx, q).ok /\ DtLexM(BT[ty.b].lx, q, 60).ok
\* the instance document of the harness declares the prefix "a" only
PrefixDeclared(a) == LET q == WsOp("collapse", a) cs == {i \in 1..Len(q) : q[i] = ":"} IN cs = {} \/ SubSeq(q, 1, MinS(cs) - 1) = <<"a">>
Allowed(e) ==
    LET ty == e.ty a == Chars(e.in) IN
    CASE Undecided(ty, a) \/ (e.b # "" /\ Undecided(ty, Chars(e.b))) -> {e.out}
      [] e.f = "parse" /\ ty.v = "a" /\ ty.b = "QName" -> {Verdict(ValidOp(ty, a) /\ PrefixDeclared(a))}
      [] e.f \in {"parse", "dv.validate", "xsv.validate"} -> {Verdict(ValidOp(ty, a))}
      [] e.f \in {"dv.canon", "xsv.canon"} ->
            IF ~ValidOp(ty, a) THEN {"none"}
            ELSE IF ty.v = "a" /\ HasCanon(ty.b) THEN {"C:" \o Str(CanonOp(ty, a))}
            ELSE {e.out}                                   \* no canonical form defined by this specification: not compared
      [] e.f \in {"dv.compare", "x.compare"} ->
            IF ValidOp(ty, a) /\ ValidOp(ty, Chars(e.b)) THEN CmpOut(CompareOp(ty, a, Chars(e.b)), e.f = "x.compare") ELSE {e.out}
\* every record is an independent call: a rejected record is noted (its line number) and the validation goes on
VARIABLE bad
TStep == /\ l <= Len(Tr) /\ l' = l + 1
         /\ bad' = IF Tr[l].out \in Allowed(Tr[l]) THEN bad ELSE IF PrintT(<<"TRACE-REJECT", l, Tags(Tr[l].ty, Chars(Tr[l].in), Chars(Tr[l].b))>>) THEN Append(bad, l) ELSE bad
         /\ UNCHANGED vars
TInit == Init /\ l = 1 /\ bad = <<>>
TSpec == TInit /\ [][TStep]_<<vars, l, bad>>
\* evaluated in the final state only (cfg: CONSTRAINT Report prints when the trace is consumed)
Report == l = Len(Tr) + 1 => PrintT(<<"TRACE-RESULT", Len(Tr) - Len(bad), Len(Tr)>>)
Accepted == TLCGet("stats").diameter - 1 = Len(Tr)
=============================================================================
