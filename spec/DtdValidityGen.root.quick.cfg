SPECIFICATION GSpec
CONSTANTS
  Family = "root"
  NTok = 2
  NTok2 = 2
  MaxVal = 1
  MaxElems = 2
INVARIANT Emit
CHECK_DEADLOCK FALSE
