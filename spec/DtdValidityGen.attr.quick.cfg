SPECIFICATION GSpec
CONSTANTS
  Family = "attr"
  NTok = 4
  NTok2 = 3
  MaxVal = 2
  MaxElems = 1
INVARIANT Emit
CHECK_DEADLOCK FALSE
