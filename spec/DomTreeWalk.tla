---------------------------- MODULE DomTreeWalk ----------------------------
(* Binder W for DomTree: random behaviours (tlc -simulate) with a history variable; the
   history is printed when the behaviour reaches its last step. *)
EXTENDS DomTree, Json
VARIABLE hist
WInit == Init /\ hist = <<>>
WNext == Next /\ hist' = Append(hist, <<last', ProjNext>>)
WSpec == WInit /\ [][WNext]_<<vars, hist>>
EmitW == (nops = MaxOps) => PrintT(ToJson(hist))
=============================================================================
