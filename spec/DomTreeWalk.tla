---------------------------- MODULE DomTreeWalk ----------------------------
(* Binder W for DomTree: random behaviours (tlc -simulate) with a history variable; the
   history is printed when the behaviour reaches its last step.  The history keeps the raw
   variable values (cheap); the projection is computed only when a behaviour is printed. *)
EXTENDS DomTree, Json
VARIABLE hist
WInit == Init /\ hist = <<>>
\* TLC's simulator evaluates invariants on every generated successor, so the last step of a behaviour is a
\* single deterministic Finish step: the history is then printed exactly once per behaviour.
WNext == \/ /\ nops < MaxOps - 1 /\ Next
            /\ hist' = Append(hist, [op |-> last', k |-> kind', o |-> owner', p |-> parent', c |-> kids', n |-> name',
                                       v |-> data', a |-> attrs', e |-> ownerEl', nx |-> nextId'])
         \/ /\ nops = MaxOps - 1 /\ nops' = MaxOps /\ UNCHANGED <<tree, last, hist>>
WSpec == WInit /\ [][WNext]_<<vars, hist>>
ProjOf(h) == [i \in 1..(h.nx - 1) |-> [k |-> h.k[i], o |-> h.o[i], p |-> h.p[i], c |-> h.c[i], n |-> h.n[i],
                                       v |-> h.v[i], a |-> h.a[i], e |-> h.e[i]]]
EmitW == (nops = MaxOps) => PrintT(ToJson([i \in 1..Len(hist) |-> <<hist[i].op, ProjOf(hist[i])>>]))
=============================================================================
