--------------------------- MODULE ConcurrencyWalk ---------------------------
(* Binder W for Concurrency: TLC enumerates EVERY interleaving (complete behaviour) of the chosen program
   assignments; each is printed once, when all threads are done, as
     {"p": initial programs, "h": [[t, action, value, kind] ...], "f": final abstract state}
   and harness/conc_harness w forces exactly that interleaving on the real library.  "ret" entries are not
   steps: they carry the value the specification says the finished call returns. *)
EXTENDS Concurrency, Json
VARIABLES hist, prog0
wvars == <<vars, hist, prog0>>

WInit == Init /\ hist = <<>> /\ prog0 = prog
Finished(t) == (pc[t] # "idle" /\ pc'[t] = "idle") \/ (pc[t] = "idle" /\ pc'[t] = "idle" /\ prog'[t] # prog[t])
KindOf(t) == IF cur[t] # NoOp THEN cur[t].k ELSE Head(prog[t]).k
RetVal(t) == IF KindOf(t) \in {"SPA", "SPG"} THEN ret'[t] ELSE step'.v
WNext == /\ \E t \in Threads : ThreadNext(t)
         /\ LET t == step'.t
                e == <<t, step'.a, step'.v, KindOf(t)>> IN
            hist' = IF Finished(t) THEN hist \o <<e, <<t, "ret", RetVal(t), KindOf(t)>>>> ELSE Append(hist, e)
         /\ UNCHANGED prog0
WSpec == WInit /\ [][WNext]_wvars

Final == [ptr |-> ptr, builds |-> builds, scanid |-> scanid, reglen |-> reglen, pool |-> pool, sdoc |-> sdoc]
Emit == AllDone => PrintT(ToJson([p |-> prog0, h |-> hist, f |-> Final]))

\* program assignments replayed: calls that meet at the same mutex or the same immutable object
SameGuard(a, b) == MutexOf(a) = MutexOf(b)
\* every thread at most one call (any op)
Singles == {f \in [Threads -> SeqsUpTo(AllOps, 1)] :
               \A t, u \in Threads : (f[t] # <<>> /\ f[u] # <<>>) => SameGuard(f[t][1], f[u][1])}
\* thread 1 two calls, the others one call, at the read-modify-write sites
Deep21 == {f \in [Threads -> SeqsUpTo(CoreOps, 2)] :
              /\ Len(f[1]) = 2 /\ \A t \in Threads \ {1} : Len(f[t]) = 1
              /\ \A t, u \in Threads : \A i \in 1..Len(f[t]), j \in 1..Len(f[u]) : SameGuard(f[t][i], f[u][j])}
\* two calls per thread
Deep22 == {f \in [Threads -> SeqsUpTo(CoreOps, 2)] :
              /\ \A t \in Threads : Len(f[t]) = 2
              /\ \A t, u \in Threads : \A i, j \in 1..2 : SameGuard(f[t][i], f[u][j])}
WQuick == Deep21
WThorough == Deep21 \cup Deep22
=============================================================================
