SPECIFICATION Spec
CONSTANTS
  NEnt = 3
  MaxVal = 2
  MaxValLast = 1
  MaxDoc = 1
  Limits = {99, 0, 1, 3}
  ExtSets = {{}, {3}}
  Sites = {"content", "attr", "attdef"}
  ScnSet = {"IG", "DG"}
  ApiSet = {"RAW"}
INVARIANT TypeOK
INVARIANT ExpansionBound
INVARIANT OverLimitRejected
INVARIANT WithinLimitUnaffected
INVARIANT RecursionReported
INVARIANT NoFalseRecursion
INVARIANT DepthBounded
INVARIANT EmitT
CHECK_DEADLOCK FALSE
