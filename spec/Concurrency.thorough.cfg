SPECIFICATION Spec
CONSTANTS
  Threads = {1, 2}
  Slots = {1, 2}
  Pools = {"SP1"}
  Strs = {1, 2, 3}
  ConstStrs <- ConstPool1
  Grams = {1}
  Grams0 = {}
  RegLen0 = 0
  ProgChoices <- ChoicesCore2
  NoLock = {}
  LazyMap = FALSE
INVARIANTS TypeOK MutualExclusion OwnerConsistent AtMostOneLockHeld GuardedWrite UnlockedReadsOnlyWhereDoubleChecked
  InitOnce BuiltIffPublished UniqueScannerIds ReadStable StringPoolIdsFunctional LockedPoolConstant
PROPERTIES PoolAppendOnly Termination
CHECK_DEADLOCK TRUE
