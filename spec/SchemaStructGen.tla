------------------------- MODULE SchemaStructGen -------------------------
(* Binder T for SchemaStruct: one line per schema of the family with all its instances and, from the OPERATIONAL
   layer (which SchemaStruct*.cfg proves equal to the declarative Valid), the set of error kinds of each:
        <<template, parameters, schema record, expected load result, {<<instance, {error kinds}>> ...}>> *)
EXTENDS SchemaStruct, Json
Seqs(A, n) == UNION {[1..k -> A] : k \in 0..n}
Docs(c) == {Node(h[1], h[2], h[3], h[4], h[5], w) : h \in c.hdrs, w \in Seqs(c.alpha, c.len)}
GInit == /\ cas \in 1..Len(CaseSeq)
         /\ hdr = Nil /\ items = <<>> /\ fr = NoFrame /\ verdict = Nil
GSpec == GInit /\ [][UNCHANGED vars]_vars
(* what a valid instance must look like afterwards: governing type of the root, its attributes with the defaulted /
   fixed ones added (3.4.5, attribute default), the element default text (3.3.5) or "-" when nothing is supplied *)
RootInfo(S, n) ==
  LET d == GDecl(S, n[2])
      tn == IF n[3] # "" THEN n[3] ELSE d.type
      uses == EffAttrs(S, tn)
      present == {n[5][j][2] : j \in {k \in 1..Len(n[5]) : n[5][k][1] = ""}}
      added == {<<"", uses[i].name, uses[i].val>> : i \in {k \in 1..Len(uses) : uses[k].use # "prohibited" /\ uses[k].vc # ""
                                                                              /\ uses[k].name \notin present}}
  IN <<tn, Range(n[5]) \cup added,
       IF n[4] # "true" /\ KindOf(S, tn) \in {"simple", "mixed"} /\ Elems(n[6]) = <<>> /\ Chars(n[6]) = <<>> /\ d.vc # "" THEN d.val ELSE "-">>
Out(S, d) == LET e == DocErrs(S, d) IN <<d, e, IF e = {} THEN RootInfo(S, d) ELSE <<>> >>
Emit == PrintT(ToJson(<<CS.id, CS.par, CS.schema, CS.load, {Out(CS.schema, d) : d \in Docs(CS)}>>))
=============================================================================
