SPECIFICATION WSpec
CONSTANTS
  AlphaSeq <- Alpha6
  MaxLen = 3
  Uni = "A"
  MaxOps = 13
INVARIANT EmitW
CHECK_DEADLOCK FALSE
