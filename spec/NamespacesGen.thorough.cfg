SPECIFICATION GSpec
CONSTANTS
  PrefixSeq <- BasePrefixes
  UriSeq <- BaseUris
  ElemPrefixSeq <- BasePrefixes
  AttrPrefixSeq <- BasePrefixes
  LocalSeq <- LocalsAB
  Versions = {"1.0"}
  MaxDepth = 4
  MaxElems = 4
  MaxDecls = 2
  MaxAttrs = 2
  BuildElems = 3
  BuildDecls = 1
  BuildPrefixSeq <- SmallPrefixes
  ProbeBudget = 4
  BigNs = {}
  BigAttrNs = {}
ACTION_CONSTRAINT EmitT
CHECK_DEADLOCK FALSE
