SPECIFICATION WSpec
CONSTANTS
  Blocks = {1, 2, 3, 4, 5, 6}
  Objs = {1, 2, 3, 4}
  MaxOps = 34
  PMgrs = {"p1", "p2"}
  Docs = {1, 2, 3, 4, 5, 6}
  MaxK = 6
  Apis = {0, 1, 2, 3}
INVARIANT EmitW
INVARIANT Closed
INVARIANT ObjectScopedNoLeak
INVARIANT BalancedInitTerm
CHECK_DEADLOCK FALSE
