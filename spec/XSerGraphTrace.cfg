SPECIFICATION TSpec
CONSTANTS
  MaxObjs = 1
  BlockSizes = {16}
  BytesLens = {3}
  Tampers = {"none"}
  ReadVariant = "sound"
  AsymClass = ""
INVARIANT TPools
POSTCONDITION Accepted
CHECK_DEADLOCK FALSE
