---- MODULE ReaderBuf_TTrace_1790105795 ----
EXTENDS Sequences, TLCExt, Toolbox, ReaderBuf, Naturals, TLC

_expression ==
    LET ReaderBuf_TEExpression == INSTANCE ReaderBuf_TEExpression
    IN ReaderBuf_TEExpression!expression
----

_trace ==
    LET ReaderBuf_TETrace == INSTANCE ReaderBuf_TETrace
    IN ReaderBuf_TETrace!trace
----

_inv ==
    ~(
        TLCGet("level") = Len(_TETrace)
        /\
        charBuf = (<<>>)
        /\
        sd = ([starts |-> <<0, 3>>, sum |-> 3, bc |-> <<1, 1, 1>>, units |-> <<<<1, 1>>>>])
        /\
        b = ([lw |-> 0, read |-> 1, rawIdx |-> 0, rawAvail |-> 1, pc |-> "idle", charIdx |-> 0, maxChars |-> 3, err |-> FALSE, charAvail |-> 0, noMore |-> TRUE, lastDone |-> 0, gained |-> 0, pe |-> FALSE, needMore |-> TRUE, spare |-> 0, leftBefore |-> 1, lastRead |-> 0, trail |-> FALSE, eaten |-> 0, skipped |-> 0, consumed |-> 0])
        /\
        total = (1)
        /\
        stream = (<<<<3, 1>>>>)
        /\
        la = (<<0, 0, TRUE>>)
        /\
        want = (0)
        /\
        decoded = (<<>>)
        /\
        rawBuf = (<<1>>)
        /\
        out = (<<>>)
    )
----

_init ==
    /\ b = _TETrace[1].b
    /\ out = _TETrace[1].out
    /\ decoded = _TETrace[1].decoded
    /\ charBuf = _TETrace[1].charBuf
    /\ rawBuf = _TETrace[1].rawBuf
    /\ sd = _TETrace[1].sd
    /\ want = _TETrace[1].want
    /\ total = _TETrace[1].total
    /\ stream = _TETrace[1].stream
    /\ la = _TETrace[1].la
----

_next ==
    /\ \E i,j \in DOMAIN _TETrace:
        /\ \/ /\ j = i + 1
              /\ i = TLCGet("level")
        /\ b  = _TETrace[i].b
        /\ b' = _TETrace[j].b
        /\ out  = _TETrace[i].out
        /\ out' = _TETrace[j].out
        /\ decoded  = _TETrace[i].decoded
        /\ decoded' = _TETrace[j].decoded
        /\ charBuf  = _TETrace[i].charBuf
        /\ charBuf' = _TETrace[j].charBuf
        /\ rawBuf  = _TETrace[i].rawBuf
        /\ rawBuf' = _TETrace[j].rawBuf
        /\ sd  = _TETrace[i].sd
        /\ sd' = _TETrace[j].sd
        /\ want  = _TETrace[i].want
        /\ want' = _TETrace[j].want
        /\ total  = _TETrace[i].total
        /\ total' = _TETrace[j].total
        /\ stream  = _TETrace[i].stream
        /\ stream' = _TETrace[j].stream
        /\ la  = _TETrace[i].la
        /\ la' = _TETrace[j].la

\* Uncomment the ASSUME below to write the states of the error trace
\* to the given file in Json format. Note that you can pass any tuple
\* to `JsonSerialize`. For example, a sub-sequence of _TETrace.
    \* ASSUME
    \*     LET J == INSTANCE Json
    \*         IN J!JsonSerialize("ReaderBuf_TTrace_1790105795.json", _TETrace)

=============================================================================

 Note that you can extract this module `ReaderBuf_TEExpression`
  to a dedicated file to reuse `expression` (the module in the 
  dedicated `ReaderBuf_TEExpression.tla` file takes precedence 
  over the module `ReaderBuf_TEExpression` below).

---- MODULE ReaderBuf_TEExpression ----
EXTENDS Sequences, TLCExt, Toolbox, ReaderBuf, Naturals, TLC

expression == 
    [
        \* To hide variables of the `ReaderBuf` spec from the error trace,
        \* remove the variables below.  The trace will be written in the order
        \* of the fields of this record.
        b |-> b
        ,out |-> out
        ,decoded |-> decoded
        ,charBuf |-> charBuf
        ,rawBuf |-> rawBuf
        ,sd |-> sd
        ,want |-> want
        ,total |-> total
        ,stream |-> stream
        ,la |-> la
        
        \* Put additional constant-, state-, and action-level expressions here:
        \* ,_stateNumber |-> _TEPosition
        \* ,_bUnchanged |-> b = b'
        
        \* Format the `b` variable as Json value.
        \* ,_bJson |->
        \*     LET J == INSTANCE Json
        \*     IN J!ToJson(b)
        
        \* Lastly, you may build expressions over arbitrary sets of states by
        \* leveraging the _TETrace operator.  For example, this is how to
        \* count the number of times a spec variable changed up to the current
        \* state in the trace.
        \* ,_bModCount |->
        \*     LET F[s \in DOMAIN _TETrace] ==
        \*         IF s = 1 THEN 0
        \*         ELSE IF _TETrace[s].b # _TETrace[s-1].b
        \*             THEN 1 + F[s-1] ELSE F[s-1]
        \*     IN F[_TEPosition - 1]
    ]

=============================================================================



Parsing and semantic processing can take forever if the trace below is long.
 In this case, it is advised to uncomment the module below to deserialize the
 trace from a generated binary file.

\*
\*---- MODULE ReaderBuf_TETrace ----
\*EXTENDS IOUtils, ReaderBuf, TLC
\*
\*trace == IODeserialize("ReaderBuf_TTrace_1790105795.bin", TRUE)
\*
\*=============================================================================
\*

---- MODULE ReaderBuf_TETrace ----
EXTENDS ReaderBuf, TLC

trace == 
    <<
    ([charBuf |-> <<>>,sd |-> [starts |-> <<0, 3>>, sum |-> 3, bc |-> <<1, 1, 1>>, units |-> <<<<1, 1>>>>],b |-> [lw |-> 0, read |-> 0, rawIdx |-> 0, rawAvail |-> 0, pc |-> "new", charIdx |-> 0, maxChars |-> 0, err |-> FALSE, charAvail |-> 0, noMore |-> FALSE, lastDone |-> 0, gained |-> 0, pe |-> FALSE, needMore |-> FALSE, spare |-> 0, leftBefore |-> 0, lastRead |-> -1, trail |-> FALSE, eaten |-> 0, skipped |-> 0, consumed |-> 0],total |-> 1,stream |-> <<<<3, 1>>>>,la |-> <<0, 0, TRUE>>,want |-> 0,decoded |-> <<>>,rawBuf |-> <<>>,out |-> <<>>]),
    ([charBuf |-> <<>>,sd |-> [starts |-> <<0, 3>>, sum |-> 3, bc |-> <<1, 1, 1>>, units |-> <<<<1, 1>>>>],b |-> [lw |-> 0, read |-> 1, rawIdx |-> 0, rawAvail |-> 1, pc |-> "init", charIdx |-> 0, maxChars |-> 0, err |-> FALSE, charAvail |-> 0, noMore |-> FALSE, lastDone |-> 0, gained |-> 0, pe |-> FALSE, needMore |-> FALSE, spare |-> 0, leftBefore |-> 0, lastRead |-> 1, trail |-> FALSE, eaten |-> 0, skipped |-> 0, consumed |-> 0],total |-> 1,stream |-> <<<<3, 1>>>>,la |-> <<0, 0, TRUE>>,want |-> 0,decoded |-> <<>>,rawBuf |-> <<1>>,out |-> <<>>]),
    ([charBuf |-> <<>>,sd |-> [starts |-> <<0, 3>>, sum |-> 3, bc |-> <<1, 1, 1>>, units |-> <<<<1, 1>>>>],b |-> [lw |-> 0, read |-> 1, rawIdx |-> 0, rawAvail |-> 1, pc |-> "idle", charIdx |-> 0, maxChars |-> 0, err |-> FALSE, charAvail |-> 0, noMore |-> FALSE, lastDone |-> 0, gained |-> 0, pe |-> FALSE, needMore |-> FALSE, spare |-> 0, leftBefore |-> 0, lastRead |-> 1, trail |-> FALSE, eaten |-> 0, skipped |-> 0, consumed |-> 0],total |-> 1,stream |-> <<<<3, 1>>>>,la |-> <<0, 0, TRUE>>,want |-> 0,decoded |-> <<>>,rawBuf |-> <<1>>,out |-> <<>>]),
    ([charBuf |-> <<>>,sd |-> [starts |-> <<0, 3>>, sum |-> 3, bc |-> <<1, 1, 1>>, units |-> <<<<1, 1>>>>],b |-> [lw |-> 0, read |-> 1, rawIdx |-> 0, rawAvail |-> 1, pc |-> "xhead", charIdx |-> 0, maxChars |-> 3, err |-> FALSE, charAvail |-> 0, noMore |-> FALSE, lastDone |-> 0, gained |-> 0, pe |-> FALSE, needMore |-> FALSE, spare |-> 0, leftBefore |-> 0, lastRead |-> 1, trail |-> FALSE, eaten |-> 0, skipped |-> 0, consumed |-> 0],total |-> 1,stream |-> <<<<3, 1>>>>,la |-> <<0, 0, TRUE>>,want |-> 0,decoded |-> <<>>,rawBuf |-> <<1>>,out |-> <<>>]),
    ([charBuf |-> <<>>,sd |-> [starts |-> <<0, 3>>, sum |-> 3, bc |-> <<1, 1, 1>>, units |-> <<<<1, 1>>>>],b |-> [lw |-> 0, read |-> 1, rawIdx |-> 0, rawAvail |-> 1, pc |-> "xcode", charIdx |-> 0, maxChars |-> 3, err |-> FALSE, charAvail |-> 0, noMore |-> FALSE, lastDone |-> 0, gained |-> 0, pe |-> FALSE, needMore |-> FALSE, spare |-> 0, leftBefore |-> 0, lastRead |-> 1, trail |-> FALSE, eaten |-> 0, skipped |-> 0, consumed |-> 0],total |-> 1,stream |-> <<<<3, 1>>>>,la |-> <<0, 0, TRUE>>,want |-> 0,decoded |-> <<>>,rawBuf |-> <<1>>,out |-> <<>>]),
    ([charBuf |-> <<>>,sd |-> [starts |-> <<0, 3>>, sum |-> 3, bc |-> <<1, 1, 1>>, units |-> <<<<1, 1>>>>],b |-> [lw |-> 0, read |-> 1, rawIdx |-> 0, rawAvail |-> 1, pc |-> "xhead", charIdx |-> 0, maxChars |-> 3, err |-> FALSE, charAvail |-> 0, noMore |-> FALSE, lastDone |-> 0, gained |-> 0, pe |-> FALSE, needMore |-> TRUE, spare |-> 0, leftBefore |-> 0, lastRead |-> 1, trail |-> FALSE, eaten |-> 0, skipped |-> 0, consumed |-> 0],total |-> 1,stream |-> <<<<3, 1>>>>,la |-> <<0, 0, TRUE>>,want |-> 0,decoded |-> <<>>,rawBuf |-> <<1>>,out |-> <<>>]),
    ([charBuf |-> <<>>,sd |-> [starts |-> <<0, 3>>, sum |-> 3, bc |-> <<1, 1, 1>>, units |-> <<<<1, 1>>>>],b |-> [lw |-> 0, read |-> 1, rawIdx |-> 0, rawAvail |-> 1, pc |-> "raw", charIdx |-> 0, maxChars |-> 3, err |-> FALSE, charAvail |-> 0, noMore |-> FALSE, lastDone |-> 0, gained |-> 0, pe |-> FALSE, needMore |-> TRUE, spare |-> 0, leftBefore |-> 1, lastRead |-> 1, trail |-> FALSE, eaten |-> 0, skipped |-> 0, consumed |-> 0],total |-> 1,stream |-> <<<<3, 1>>>>,la |-> <<0, 0, TRUE>>,want |-> 0,decoded |-> <<>>,rawBuf |-> <<1>>,out |-> <<>>]),
    ([charBuf |-> <<>>,sd |-> [starts |-> <<0, 3>>, sum |-> 3, bc |-> <<1, 1, 1>>, units |-> <<<<1, 1>>>>],b |-> [lw |-> 0, read |-> 1, rawIdx |-> 0, rawAvail |-> 1, pc |-> "afterraw", charIdx |-> 0, maxChars |-> 3, err |-> FALSE, charAvail |-> 0, noMore |-> FALSE, lastDone |-> 0, gained |-> 0, pe |-> FALSE, needMore |-> TRUE, spare |-> 0, leftBefore |-> 1, lastRead |-> 0, trail |-> FALSE, eaten |-> 0, skipped |-> 0, consumed |-> 0],total |-> 1,stream |-> <<<<3, 1>>>>,la |-> <<0, 0, TRUE>>,want |-> 0,decoded |-> <<>>,rawBuf |-> <<1>>,out |-> <<>>]),
    ([charBuf |-> <<>>,sd |-> [starts |-> <<0, 3>>, sum |-> 3, bc |-> <<1, 1, 1>>, units |-> <<<<1, 1>>>>],b |-> [lw |-> 0, read |-> 1, rawIdx |-> 0, rawAvail |-> 1, pc |-> "fin", charIdx |-> 0, maxChars |-> 3, err |-> FALSE, charAvail |-> 0, noMore |-> FALSE, lastDone |-> 0, gained |-> 0, pe |-> FALSE, needMore |-> TRUE, spare |-> 0, leftBefore |-> 1, lastRead |-> 0, trail |-> FALSE, eaten |-> 0, skipped |-> 0, consumed |-> 0],total |-> 1,stream |-> <<<<3, 1>>>>,la |-> <<0, 0, TRUE>>,want |-> 0,decoded |-> <<>>,rawBuf |-> <<1>>,out |-> <<>>]),
    ([charBuf |-> <<>>,sd |-> [starts |-> <<0, 3>>, sum |-> 3, bc |-> <<1, 1, 1>>, units |-> <<<<1, 1>>>>],b |-> [lw |-> 0, read |-> 1, rawIdx |-> 0, rawAvail |-> 1, pc |-> "idle", charIdx |-> 0, maxChars |-> 3, err |-> FALSE, charAvail |-> 0, noMore |-> TRUE, lastDone |-> 0, gained |-> 0, pe |-> FALSE, needMore |-> TRUE, spare |-> 0, leftBefore |-> 1, lastRead |-> 0, trail |-> FALSE, eaten |-> 0, skipped |-> 0, consumed |-> 0],total |-> 1,stream |-> <<<<3, 1>>>>,la |-> <<0, 0, TRUE>>,want |-> 0,decoded |-> <<>>,rawBuf |-> <<1>>,out |-> <<>>])
    >>
----


=============================================================================

---- CONFIG ReaderBuf_TTrace_1790105795 ----
CONSTANTS
    KChar = 3
    KRaw = 4
    MaxLen = 2
    Widths = { 1 , 3 }
    LowWaters = { 0 }
    AllowTrunc = TRUE
    FixedEof = FALSE
    MaxWant = 1

INVARIANT
    _inv

CHECK_DEADLOCK
    \* CHECK_DEADLOCK off because of PROPERTY or INVARIANT above.
    FALSE

INIT
    _init

NEXT
    _next

CONSTANT
    _TETrace <- _trace

ALIAS
    _expression
=============================================================================
\* Generated on Tue Sep 22 19:37:44 UTC 2026