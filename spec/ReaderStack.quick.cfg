SPECIFICATION Spec
CONSTANTS
  Entities = {1, 2}
  MaxRefs = 2
  Limits = {0, 3}
INVARIANT BoundedDepth
INVARIANT StackInv
INVARIANT CountBounded
INVARIANT ResetEmpty
INVARIANT PosAligned
INVARIANT RecursionReported
PROPERTY Terminates
CHECK_DEADLOCK FALSE
