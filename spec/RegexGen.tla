----------------------------- MODULE RegexGen -----------------------------
(* Binder T for Regex: one JSON line per expression of the universe with
     t     the expression rendered to the surface syntax,
     runs  the option strings to compile it under and what the specification expects of each
             "PE"  the constructor throws ParseException (expression not in the grammar / unknown option letter)
             "x"   schema mode: matches(s) = x[s]                       (derivative automaton, implicitly anchored)
             "u"   XPath mode:  matches(s) = (p[s] >= 0); with a Match object the start is p[s] and the end is one of
                   the offsets in the bit set e[s]                       (backtracking matcher)
     g     (classification of disagreements only) 1 iff the greedy-first match from offset 0 is the whole string
     x, p, e  vectors over ALL strings of length <= MaxLen in trie pre-order (<<>>, a, aa, aaa, aab, ab, ...).
   Expressions are taken group-wise (Regex!Groups) so that TLC's workers share the work. *)
EXTENDS Regex, Json
CONSTANTS OptRuns
VARIABLES gphase, grp

K == Len(AlphaSeq)
RECURSIVE Size(_)
Size(d) == IF d = 0 THEN 1 ELSE 1 + K * Size(d - 1)            \* number of strings of length <= d
Zeros(n) == [i \in 1..n |-> 0]

\* (2) the derivative automaton run over the whole trie of strings; a dead residual prunes its subtree (DeadIsDead)
RECURSIVE Walk(_, _), WalkKids(_, _, _)
Walk(re, d) == <<IF Nullable(re) THEN 1 ELSE 0>> \o (IF d = 0 THEN <<>> ELSE WalkKids(re, d, 1))
WalkKids(re, d, k) == IF k > K THEN <<>>
                      ELSE (LET dr == D(re, AlphaSeq[k]) IN IF dr = Empty THEN Zeros(Size(d - 1)) ELSE Walk(dr, d - 1))
                           \o WalkKids(re, d, k + 1)
RECURSIVE Pre(_, _), PreKids(_, _, _)
Pre(pfx, d) == <<pfx>> \o (IF d = 0 THEN <<>> ELSE PreKids(pfx, d, 1))
PreKids(pfx, d, k) == IF k > K THEN <<>> ELSE Pre(Append(pfx, AlphaSeq[k]), d - 1) \o PreKids(pfx, d, k + 1)
StrsPre == Pre(<<>>, MaxLen)

\* (3) the search: leftmost start and the set of ends valid there
RECURSIVE MaskOf(_)
MaskOf(e) == IF e = <<>> THEN 0 ELSE 2 ^ Head(e) + MaskOf(Tail(e))
RECURSIVE FirstEnds(_, _, _)
FirstEnds(r, s, p) == IF p > Len(s) THEN <<-1, 0>>
                      ELSE LET e == Ends(r, s, p) IN IF e # <<>> THEN <<p, MaskOf(e)>> ELSE FirstEnds(r, s, p + 1)

Expect(r, o) == IF ~WellFormed(r) \/ ~OptOK(o) THEN "PE" ELSE IF IsX(o) THEN "x" ELSE "u"
Case(r) ==
  LET wf == WellFormed(r)
      fe == IF wf THEN [k \in 1..Len(StrsPre) |-> FirstEnds(r, StrsPre[k], 0)] ELSE <<>>
  IN [k |-> "T", al |-> AlphaSeq, n |-> MaxLen, t |-> Text(r), sig |-> Sig(r, 2), shape |-> Shape(r), wf |-> wf,
      runs |-> [i \in 1..Len(OptRuns) |-> <<OptRuns[i], Expect(r, OptRuns[i])>>],
      x |-> IF wf THEN Walk(r, MaxLen) ELSE <<>>,
      p |-> [k \in 1..Len(fe) |-> fe[k][1]],
      e |-> [k \in 1..Len(fe) |-> fe[k][2]],
      g |-> IF wf THEN [k \in 1..Len(StrsPre) |-> GreedyWhole(r, StrsPre[k])] ELSE <<>>]

NoGroup == G("none", Eps, "")
GInit == rx = Eps /\ str = <<>> /\ res = Eps /\ last = NoCall /\ gphase = "start" /\ grp = NoGroup
TakeGroup(g) == gphase = "start" /\ grp' = g /\ gphase' = "grp" /\ UNCHANGED vars
TakeMember(r) == gphase = "grp" /\ rx' = r /\ gphase' = "done" /\ UNCHANGED <<str, res, last, grp>>
GNext == (\E g \in Groups : TakeGroup(g)) \/ (\E r \in Members(grp) : TakeMember(r))
GSpec == GInit /\ [][GNext]_<<vars, gphase, grp>>
EmitT == gphase' = "done" => PrintT(ToJson(Case(rx')))

\* option strings (cfg: OptRuns <- OptRunsStd)
OptRunsStd == << <<"X">>, <<"X", "F">>, <<"X", "H">>, <<"X", "F", "H">>, <<>>, <<"F">>, <<"H">>, <<"F", "H">>, <<"X", "q">>, <<"Q">> >>
\* the generator agrees with the declarative layer (checked by TLC on small universes: RegexGen.selfcheck.cfg)
GenIsLanguage == gphase = "done" /\ WellFormed(rx) =>
                   LET w == Walk(rx, MaxLen)
                   IN \A k \in 1..Len(StrsPre) : /\ (w[k] = 1) = InLang(rx, StrsPre[k])
                                                 /\ FirstEnds(rx, StrsPre[k], 0)[1] = Leftmost(rx, StrsPre[k], 0)
=============================================================================
