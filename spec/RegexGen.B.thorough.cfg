SPECIFICATION GSpec
CONSTANTS
  AlphaSeq <- Alpha3
  MaxLen = 5
  Uni = "B2"
  OptRuns <- OptRunsStd
ACTION_CONSTRAINT EmitT
CHECK_DEADLOCK FALSE
