SPECIFICATION GSpec
CONSTANTS
  PrefixSeq <- BasePrefixes
  UriSeq <- BaseUris
  ElemPrefixSeq <- BasePrefixes
  AttrPrefixSeq <- BasePrefixes
  LocalSeq <- LocalsAB
  Versions = {"1.0"}
  MaxDepth = 3
  MaxElems = 3
  MaxDecls = 2
  MaxAttrs = 2
  BuildElems = 2
  BuildDecls = 1
  BuildPrefixSeq <- NoPrefix
  ProbeBudget = 2
  BigNs = {}
  BigAttrNs = {}
ACTION_CONSTRAINT EmitT
CHECK_DEADLOCK FALSE
