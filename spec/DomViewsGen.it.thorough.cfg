SPECIFICATION GSpec
CONSTANTS
  MaxId = 4
  NDocs = 1
  NNames = 2
  NStrs = 1
  MaxData = 2
  MaxOps = 1
  MaxKids = 4
  NIt = 1
  NRg = 0
  NLs = 0
  NWk = 0
  MaxViewOps = 4
  MaxPost = 0
  BuildKinds = {"elem", "text"}
  GModes = {"all", "allRejB"}
  GListNames = {"a", "*"}
  GKinds = {"it"}
  GMut = {"struct"}
  GOkOnly = TRUE
  GFreshMaxId = 3
INVARIANT TreeInv
INVARIANT ViewInv
PROPERTY GIterStable
PROPERTY GRangeMoves
PROPERTY GFailedOpUnchanged
ACTION_CONSTRAINT EmitT
VIEW GView
CHECK_DEADLOCK FALSE
