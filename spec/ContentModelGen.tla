------------------------- MODULE ContentModelGen -------------------------
(* Binder T (fast path) for ContentModel: one line per content spec of the configured bounds,
   carrying the OPERATIONAL verdict (Accepts = derivative automaton + flags, which ContentModel*.cfg
   proves equal to the declarative ElementValid) of every item sequence up to MaxLen:
        <<cspec, {<<items, verdict>> ...}>>
   Enumeration is two-level so that TLC's workers share it: an initial state per SEED (a model of
   depth < Depth, or one of the non-children specs), and one step from a seed s to every model whose
   first operand is s and that are not seeds themselves (s itself, s?, s*, s+, (s,y), (s|y) for all y of depth < Depth); the union over
   the seeds is Models(Depth). Only the step's target is emitted.
   Sample > 0 (thorough tier, deeper models): seeds and second operands are pseudo-random subsets
   of that size instead of the full sets. *)
EXTENDS ContentModel, Json, Randomization, IOUtils, SequencesExt
CONSTANT Sample
VARIABLE phase
Words == UNION {[1..n -> Alphabet] : n \in 0..MaxLen}
Sub1 == Models(Depth - 1)
Pick(S) == IF Sample = 0 \/ Cardinality(S) <= Sample THEN S ELSE RandomSubset(Sample, S)
Others == IF WithItems THEN {CsEmpty, CsAny} \cup {CsMixed(ns) : ns \in SUBSET Names} ELSE {}
(* process-level sharding: the orchestration starts NSHARDS TLC processes with SHARD = 0..NSHARDS-1 in the
   environment; each takes every NSHARDS-th seed (TLC's -workers do not share so few, expensive states) *)
NShards == IF "NSHARDS" \in DOMAIN IOEnv THEN atoi(IOEnv.NSHARDS) ELSE 1
Shard == IF "SHARD" \in DOMAIN IOEnv THEN atoi(IOEnv.SHARD) ELSE 0
SeedSeq == SetToSeq({CsChildren(m) : m \in Pick(Sub1)} \cup Others)
Seeds == {SeedSeq[i] : i \in {j \in 1..Len(SeedSeq) : j % NShards = Shard}}
GInit == /\ cspec \in Seeds
         /\ st = St0(cspec)
         /\ seen = <<>>
         /\ closed = FALSE
         /\ phase = "seed"
Expand(s) == {s} \cup (({Opt(s), Star(s), Plus(s)} \cup {Cat(s, y) : y \in Pick(Sub1)} \cup {Choice(s, y) : y \in Pick(Sub1)}) \ Sub1)
GNext == /\ phase = "seed"
         /\ phase' = "emit"
         /\ cspec' \in (IF cspec[1] = "children" THEN {CsChildren(m) : m \in Expand(cspec[3])} ELSE {cspec})
         /\ st' = St0(cspec')
         /\ UNCHANGED <<seen, closed>>
GSpec == GInit /\ [][GNext]_<<vars, phase>>
Emit == phase' = "emit" => PrintT(ToJson(<<cspec', {<<w, Accepts(cspec', w)>> : w \in Words}>>))
=============================================================================
