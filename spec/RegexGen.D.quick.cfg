SPECIFICATION GSpec
CONSTANTS
  AlphaSeq <- Alpha2
  MaxLen = 5
  Uni = "D"
  OptRuns <- OptRunsStd
ACTION_CONSTRAINT EmitT
CHECK_DEADLOCK FALSE
