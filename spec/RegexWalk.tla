----------------------------- MODULE RegexWalk -----------------------------
(* Binder W for Regex: ONE compiled expression object, a TLC-chosen sequence of calls
     m  matches(s)            M  matches(s, Match)          t  tokenize(s)          r  replace(s, "<$0>")
   on TLC-chosen strings. The specification's result of a call depends on (expression, options, string) only -
   history independence is the property; the harness replays the sequence on one RegularExpression object.
   The history keeps the raw choices; expected results are computed when the behaviour is printed. *)
EXTENDS Regex, Json, SequencesExt
CONSTANTS MaxOps
VARIABLES opts, hist, n

WalkOpts == {<<"X">>, <<>>, <<"F">>, <<"H">>, <<"H", "F">>, <<"X", "H">>}
Strings == UNION {[1..k -> Alpha] : k \in 0..MaxLen}
WInit == /\ rx \in {r \in Universe : WellFormed(r)} /\ str = <<>> /\ res = rx /\ last = NoCall
         /\ opts \in WalkOpts /\ hist = <<>> /\ n = 0
Call(op, s) == /\ n < MaxOps - 1
               /\ IsX(opts) => op \in {"m", "M"}           \* tokenize/replace are XPath functions: not used on schema-mode objects
               /\ hist' = Append(hist, <<op, s>>) /\ n' = n + 1
               /\ UNCHANGED <<vars, opts>>
\* TLC's simulator evaluates invariants on every generated successor: the last step is one deterministic Finish step
Finish == n = MaxOps - 1 /\ n' = MaxOps /\ UNCHANGED <<vars, opts, hist>>
WNext == (\E op \in {"m", "M", "t", "r"}, s \in Strings : Call(op, s)) \/ Finish
WSpec == WInit /\ [][WNext]_<<vars, opts, hist, n>>

RECURSIVE MaskOf(_)
MaskOf(e) == IF e = <<>> THEN 0 ELSE 2 ^ Head(e) + MaskOf(Tail(e))
Expected(op, s) ==
  \* last component: GreedyWhole, a classification of disagreements only
  CASE op = "m" -> IF IsX(opts) THEN <<Nullable(DerivStr(rx, s)), GreedyWhole(rx, s)>> ELSE <<FirstFrom(rx, s, 0) # NoPos, 1>>
    [] op = "M" -> IF IsX(opts) THEN <<Nullable(DerivStr(rx, s)), 0, 2 ^ Len(s), GreedyWhole(rx, s)>>
                   ELSE LET m == FirstFrom(rx, s, 0)
                        IN IF m = NoPos THEN <<FALSE, -1, 0, 1>> ELSE <<TRUE, m[1], MaskOf(Ends(rx, s, m[1])), 1>>
    [] op = "t" -> IF Nullable(rx) THEN [exc |-> "RuntimeException"]
                   ELSE [pri |-> TokensOf(s, PriSeq(rx, s, 0), 0), all |-> SetToSeq({TokensOf(s, ms, 0) : ms \in OpSeqs(rx, s, 0)})]
    [] op = "r" -> IF Nullable(rx) THEN [exc |-> "RuntimeException"]
                   ELSE [pri |-> ReplacedOf(s, PriSeq(rx, s, 0), 0, RepL, RepR),
                         all |-> SetToSeq({ReplacedOf(s, ms, 0, RepL, RepR) : ms \in OpSeqs(rx, s, 0)})]
EmitW == (n = MaxOps) => PrintT(ToJson([k |-> "W", al |-> AlphaSeq, t |-> Text(rx), sig |-> Sig(rx, 2), opts |-> opts,
                                        steps |-> [i \in 1..Len(hist) |-> <<hist[i][1], hist[i][2], Expected(hist[i][1], hist[i][2])>>]]))
=============================================================================
