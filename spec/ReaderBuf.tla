------------------------------ MODULE ReaderBuf ------------------------------
(* XMLReader's raw-byte / character double buffer (src/xercesc/internal/XMLReader.cpp).

   OPERATIONAL LAYER, shaped like the code: one operator per observable step of
       XMLReader::XMLReader        NewReader, RawRefresh (initial load), InitDecode
       refreshCharBuffer           Begin ... End          (hook events CRB / CRE)
       xcodeMoreChars              XHead, AfterRaw        (loop head / the "return 0" statement)
       refreshRawBuffer            RawRefresh             (hook event Raw)
       XMLTranscoder::transcodeFrom  Transcode            (hook event Xc)
       the scanner                 Consume, look-ahead (skippedString/peekString/handleEOL/getName shape)
   The steps are pure operators over a reader record `b` (indices and counters only), so that the
   same definitions are used (1) by the state machine below, which adds an abstract byte stream,
   the buffer CONTENTS and an arbitrary partition of the stream into reads, and (2) by
   ReaderBufTrace, which replays the hook events of real parses with the real constants
   (KChar = 16384, KRaw = 49152) for any number of readers.

   DECLARATIVE LAYER (property C04, and the buffer part of C01):
       Delivered = Decode(stream)   whatever the partition into reads, the low-water mark and the
                                    placement of look-ahead refreshes     (DeliveredPrefix, DeliveredAll)
       ByteConservation             no byte lost, none decoded twice       (counters and contents)
       IndexBounds, Progress, EofSound, LookAheadSound, termination under fairness of the consumer.

   EofSound is stated as the recommendation needs it (input that ends inside a multi-byte sequence
   is an error, never silently the end of the entity).  FixedEof = TRUE is that reference behaviour;
   FixedEof = FALSE is the code as pinned (DESIGN.md 6.1) and is kept as a negative configuration:
   TLC must find the EofSound counterexample there. *)
EXTENDS ReaderBufOps, Sequences, FiniteSets, TLC     \* KChar, KRaw, FixedEof and the pure layer come from ReaderBufOps

CONSTANTS MaxLen,       \* generator: characters per stream
          Widths,       \* generator: byte widths of the character classes (4 = surrogate pair)
          LowWaters,    \* generator: low-water marks explored
          AllowTrunc,   \* generator: the stream may end inside a multi-byte sequence
          MaxWant       \* generator: longest look-ahead literal

-----------------------------------------------------------------------------
(* ---------- state machine for exhaustive checking: one reader over an abstract stream ---------- *)

(* a character class is <<bytes, units>>: 1-, 2-, 3-byte characters and a 4-byte one that becomes a surrogate pair *)
Classes == {<<w, IF w = 4 THEN 2 ELSE 1>> : w \in Widths}
VARIABLES stream,    \* sequence of classes: the entity's characters
          sd,        \* data derived from the stream once (never changes): units, starts, byte -> character, ...
          total,     \* bytes the stream really delivers (< sum of widths when it ends inside the last character)
          b,         \* the reader record
          rawBuf,    \* contents of fRawByteBuf[0 .. rawAvail): byte offsets (1-based) in the stream
          charBuf,   \* contents of fCharBuf[0 .. charAvail): units <<char index, unit index>>
          out,       \* units handed to the scanner so far
          decoded,   \* byte offsets eaten by the transcoder so far
          want,      \* look-ahead in progress: number of characters the scanner needs (0 = none)
          la         \* result of the last look-ahead: <<position in out, wanted, answer>>
vars == <<stream, sd, total, b, rawBuf, charBuf, out, decoded, want, la>>

RECURSIVE SumW(_)
SumW(s) == IF s = <<>> THEN 0 ELSE Head(s)[1] + SumW(Tail(s))
SeqsUpTo(n) == UNION {[1..k -> Classes] : k \in 0..n}
RECURSIVE UnitsOf(_, _)
UnitsOf(s, i) == IF i > Len(s) THEN <<>>
                 ELSE (IF s[i][2] = 2 THEN <<<<i, 1>>, <<i, 2>>>> ELSE <<<<i, 1>>>>) \o UnitsOf(s, i + 1)
Derived(s) ==
  LET st == [i \in 1..(Len(s) + 1) |-> SumW(SubSeq(s, 1, i - 1))]                 \* bytes before character i
  IN [starts |-> st,
      sum    |-> st[Len(s) + 1],
      bc     |-> [o \in 1..st[Len(s) + 1] |-> CHOOSE i \in 1..Len(s) : st[i] < o /\ o <= st[i + 1]],   \* character holding byte o
      units  |-> UnitsOf(s, 1)]
Decode == sd.units                                              \* declarative: what a conforming reader delivers
(* the characters wholly inside the delivered bytes *)
DecodeDelivered == IF total = sd.sum THEN sd.units
                   ELSE SubSeq(sd.units, 1, Len(sd.units) - stream[Len(stream)][2])

Init == /\ stream \in SeqsUpTo(MaxLen)
        /\ sd = Derived(stream)
        /\ total \in {sd.sum} \cup (IF AllowTrunc /\ stream # <<>>
                                     THEN (sd.starts[Len(stream)] + 1)..(sd.sum - 1) ELSE {})   \* ends inside the last character
        /\ \E lw \in LowWaters : b = NewReader(lw, FALSE)
        /\ rawBuf = <<>> /\ charBuf = <<>> /\ out = <<>> /\ decoded = <<>> /\ want = 0 /\ la = <<0, 0, TRUE>>

(* BinInputStream::readBytes: any short read; 0 only at the end of the stream (or when no room is asked for) *)
RawRefresh(n) ==
  /\ RawRefreshPre(b, n)
  /\ n <= total - b.read
  /\ (n = 0 => (b.read = total \/ KRaw - BytesLeft(b) = 0))
  /\ rawBuf' = SubSeq(rawBuf, b.rawIdx + 1, b.rawAvail) \o [k \in 1..n |-> b.read + k]
  /\ b' = RawRefreshOp(b, n)
  /\ UNCHANGED <<stream, sd, total, charBuf, out, decoded, want, la>>

InitDecode == /\ b.pc = "init" /\ InitPre(b, 0, 0, 0) /\ b' = InitOp(b, 0, 0, 0)
              /\ UNCHANGED <<stream, sd, total, rawBuf, charBuf, out, decoded, want, la>>

Consume(n) == /\ want = 0 /\ n >= 1 /\ ConsumePre(b, n)
              /\ out' = out \o SubSeq(charBuf, b.charIdx + 1, b.charIdx + n)
              /\ b' = ConsumeOp(b, n)
              /\ UNCHANGED <<stream, sd, total, rawBuf, charBuf, decoded, want, la>>

(* refreshCharBuffer may be entered with any number of spare characters (look-ahead) *)
Begin == /\ BeginPre(b) /\ b' = BeginOp(b)
         /\ (want > 0 => CharsLeft(b) < want)                  \* "while (charsLeft < srcLen) refreshCharBuffer()"
         /\ UNCHANGED <<stream, sd, total, rawBuf, charBuf, out, decoded, want, la>>
XHead == /\ XHeadPre(b) /\ b' = XHeadOp(b)
         /\ UNCHANGED <<stream, sd, total, rawBuf, charBuf, out, decoded, want, la>>
AfterRaw == /\ AfterRawPre(b) /\ b' = AfterRawOp(b)
            /\ UNCHANGED <<stream, sd, total, rawBuf, charBuf, out, decoded, want, la>>

(* the UTF-8 transcoder on the CONTENTS of the raw buffer: whole sequences only, a surrogate pair needs two free
   places; result <<units, bytes eaten, bad>> ; bad = the byte at the read position is not the first of a character *)
RECURSIVE Xc(_, _)
Xc(i, room) ==
  IF i > b.rawAvail \/ room = 0 THEN <<<<>>, 0, FALSE>>
  ELSE LET o == rawBuf[i]
           c == sd.bc[o]
           w == stream[c][1]
           u == stream[c][2]
       IN IF o # sd.starts[c] + 1 THEN <<<<>>, 0, TRUE>>
          ELSE IF i + w - 1 > b.rawAvail THEN <<<<>>, 0, FALSE>>                                  \* srcPtr + trailingBytes >= srcEnd
          ELSE IF \E k \in 1..(w - 1) : rawBuf[i + k] # o + k THEN <<<<>>, 0, TRUE>>
          ELSE IF u > room THEN <<<<>>, 0, FALSE>>                                                \* outPtr + 1 >= outEnd
          ELSE LET r == Xc(i + w, room - u)
               IN <<(IF u = 2 THEN <<<<c, 1>>, <<c, 2>>>> ELSE <<<<c, 1>>>>) \o r[1], w + r[2], r[3]>>
Transcode ==
  /\ b.pc = "xcode"
  /\ LET r == Xc(b.rawIdx + 1, b.maxChars)
     IN IF r[3] THEN /\ b' = [AbortOp(b) EXCEPT !.err = TRUE]                                     \* UTFDataFormatException
                     /\ UNCHANGED <<charBuf, decoded>>
        ELSE /\ TranscodePre(b, Len(r[1]), r[2])
             /\ b' = TranscodeOp(b, Len(r[1]), r[2])
             /\ decoded' = decoded \o SubSeq(rawBuf, b.rawIdx + 1, b.rawIdx + r[2])
             /\ charBuf' = IF r[2] = 0 THEN charBuf
                           ELSE SubSeq(charBuf, b.charIdx + 1, b.charAvail) \o r[1]               \* spare chars moved down
  /\ UNCHANGED <<stream, sd, total, rawBuf, out, want, la>>

(* look-ahead of n characters as skippedString / peekString / handleEOL (n = 1) / getName (n = 2) do it:
   refresh while fewer than n are left; give up when a refresh adds nothing *)
LookStart(n) == /\ want = 0 /\ b.pc = "idle" /\ n \in 1..MaxWant /\ want' = n
                /\ UNCHANGED <<stream, sd, total, b, rawBuf, charBuf, out, decoded, la>>
LookAnswer == /\ want > 0 /\ b.pc = "idle"
              /\ (CharsLeft(b) >= want \/ b.noMore)
              /\ la' = <<Len(out), want, CharsLeft(b) >= want>>
              /\ want' = 0
              /\ UNCHANGED <<stream, sd, total, b, rawBuf, charBuf, out, decoded>>
End == /\ EndPre(b)
       /\ b' = EndOp(b)
       /\ charBuf' = IF b.lastDone = 0 THEN SubSeq(charBuf, b.charIdx + 1, b.charAvail) ELSE charBuf
       /\ IF want > 0 /\ b.lastDone = 0                                                           \* "did not add anything new: give up"
          THEN la' = <<Len(out), want, FALSE>> /\ want' = 0
          ELSE UNCHANGED <<la, want>>
       /\ UNCHANGED <<stream, sd, total, rawBuf, out, decoded>>

Next == \/ \E n \in 0..KRaw : RawRefresh(n)
        \/ InitDecode \/ Begin \/ XHead \/ AfterRaw \/ Transcode \/ End
        \/ \E n \in 1..KChar : Consume(n)
        \/ \E n \in 1..MaxWant : LookStart(n)
        \/ LookAnswer
(* termination needs fairness of the reader's own steps and of the CONSUMER (a caller that only ever looks ahead is a legal stutter) *)
Steps == (\E n \in 0..KRaw : RawRefresh(n)) \/ InitDecode \/ Begin \/ XHead \/ AfterRaw \/ Transcode \/ End \/ LookAnswer
Spec == Init /\ [][Next]_vars /\ WF_vars(Steps) /\ SF_vars(\E n \in 1..KChar : Consume(n))

-----------------------------------------------------------------------------
(* ---------- the properties TLC checks ---------- *)
IsPrefix(s, t) == Len(s) <= Len(t) /\ \A i \in 1..Len(s) : s[i] = t[i]
TypeOK == b.pc \in {"new", "init", "idle", "xhead", "raw", "afterraw", "xcode", "fin", "dead"}
IndexBounds == IndexBoundsR(b) /\ Len(rawBuf) = b.rawAvail /\ (b.pc = "idle" => Len(charBuf) = b.charAvail)
ByteConservation == /\ ByteConservationR(b)
                    /\ decoded = [k \in 1..Len(decoded) |-> k]                                   \* every byte once, in order
                    /\ \A i \in 1..BytesLeft(b) : rawBuf[b.rawIdx + i] = Len(decoded) + i        \* pending bytes follow directly
CharConservation == CharConservationR(b)
Progress == ProgressR(b)
EofSound == b.noMore => (b.read = total /\ BytesLeft(b) = 0 /\ EofSoundR(b))
NoFormatError == b.err => (FixedEof /\ total < sd.sum)                                     \* only a truncated stream is an error
DeliveredPrefix == IsPrefix(out, Decode) /\ (b.pc = "idle" => out \o SubSeq(charBuf, b.charIdx + 1, b.charAvail) = SubSeq(Decode, 1, b.gained))
DeliveredAll == (b.noMore /\ ~b.err) => out = DecodeDelivered                                    \* Delivered = Decode(stream), any partition
(* a look-ahead answers "n more characters exist" exactly when the entity has them - independent of partition and refill points *)
LookAheadSound == (la[2] > 0 /\ la[2] <= KChar - 1 /\ total = sd.sum) => (la[3] <=> (Len(Decode) - la[1] >= la[2]))
Terminates == <>(b.noMore \/ b.pc = "dead")
=============================================================================
