SPECIFICATION Spec
CONSTANTS
  NNames = 2
  Depth = 1
  MaxLen = 4
  WithItems = TRUE
INVARIANT Agree
INVARIANT PosAgree
INVARIANT TypeOK
CHECK_DEADLOCK FALSE
