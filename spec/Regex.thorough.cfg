SPECIFICATION Spec
CONSTANTS
  AlphaSeq <- Alpha3
  MaxLen = 3
  Uni = "chk2"
INVARIANT DerivIsLanguage
INVARIANT DeadIsDead
INVARIANT BacktrackIsLanguage
INVARIANT EndsNoDup
INVARIANT CallsOK
INVARIANT TokensPartition
INVARIANT SeqsAgree
CHECK_DEADLOCK FALSE
