SPECIFICATION Spec
CONSTANTS
  Fams = {"F1", "F2", "F3a", "F3b", "F3c", "F4", "F5", "F7", "F8", "F9"}
  LenCap = 3
  Cases <- MCCases
INVARIANT CasesWellFormed
INVARIANT VerdictMatchesDeclarative
INVARIANT VerdictIndependentOfOrder
INVARIANT RunAgrees
INVARIANT StackInv
INVARIANT DupReported
CHECK_DEADLOCK FALSE
