------------------------- MODULE IdentityConstraintsLarge -------------------------
(* Binder L for IdentityConstraints: one large flat instance (key K on r: i/@id, keyref R on r: b/@ref -> K) described
   by a few numbers in the JSON file named by the environment variable C10_LARGE:
     n keys  id_k = a*k+b  written in rotating lexical forms, n references (in other lexical forms when the type is
     decimal), an order (keys-first | refs-first | mixed) and one mutation at pos/pos2.
   With shape = "twofield" the instance is instead n elements i under one two-field key (@id, @ref): @id takes only g
   distinct numbers, @ref is distinct for every element (mutation "dup2": element pos repeats the tuple of pos2, @id in
   another lexical form), so that hundreds of DIFFERENT tuples agree in their first field and fall into the same buckets
   of the hash based ValueStore (a tuple comparison that is only wrong for colliding tuples shows up only here).
   TLC expands the description, runs the operational layer step by step (about 4n+2 states), checks that its verdict is
   the declarative layer's, and prints the case with the expected kinds for the harness. *)
EXTENDS IdentityConstraints, Json, IOUtils
D == JsonDeserialize(IOEnv.C10_LARGE)
Forms == <<"p", "z", "d">>
Num(k) == D.a * k + D.b
KForm(k) == Forms[(k % 3) + 1]
RForm(k) == IF D.ty = "decimal" THEN Forms[((k + 1) % 3) + 1] ELSE KForm(k)
KeyNode(k) ==
    LET id == IF D.mut = "missingkey" /\ k = D.pos THEN NoLex
              ELSE IF D.mut = "dupkey" /\ k = D.pos THEN <<KForm(D.pos2), Num(D.pos2)>>
              ELSE IF D.mut = "dupkey-lex" /\ k = D.pos THEN <<KForm(D.pos2 + 1), Num(D.pos2)>>
              ELSE <<KForm(k), Num(k)>>
    IN <<1, "i", id, NoLex, NoLex>>
RefNode(k) ==
    LET ref == IF D.mut = "dangling" /\ k = D.pos THEN <<"p", Num(D.n + 5)>>
               ELSE IF D.mut = "valid-lexref" /\ k = D.pos THEN <<KForm(k + 1), Num(k)>>
               ELSE <<RForm(k), Num(k)>>
    IN <<1, "b", NoLex, ref, NoLex>>
LTree == [j \in 1..(2 * D.n) |->
             IF D.order = "keys-first" THEN (IF j <= D.n THEN KeyNode(j) ELSE RefNode(j - D.n))
             ELSE IF D.order = "refs-first" THEN (IF j <= D.n THEN RefNode(j) ELSE KeyNode(j - D.n))
             ELSE (IF j % 2 = 1 THEN KeyNode((j + 1) \div 2) ELSE RefNode(D.n + 1 - (j \div 2)))]
LPath(s, a) == [d |-> FALSE, s |-> s, a |-> a]
LCons == << [nm |-> "K", kind |-> "key", on |-> "r", sel |-> <<LPath(<<"i">>, "-")>>, flds |-> << <<LPath(<<>>, "id")>> >>, refer |-> "-"],
            [nm |-> "R", kind |-> "keyref", on |-> "r", sel |-> <<LPath(<<"b">>, "-")>>, flds |-> << <<LPath(<<>>, "ref")>> >>, refer |-> "K"] >>
TwoNode(k) ==
    LET src == IF D.mut = "dup2" /\ k = D.pos THEN D.pos2 ELSE k
        form == IF D.mut = "dup2" /\ k = D.pos THEN KForm(D.pos2 + 1) ELSE KForm(k)
    IN <<1, "i", <<form, Num(src % D.g)>>, <<"p", Num(src)>>, NoLex>>
TwoTree == [j \in 1..D.n |-> TwoNode(j)]
TwoCons == << [nm |-> "K", kind |-> "key", on |-> "r", sel |-> <<LPath(<<"i">>, "-")>>,
               flds |-> << <<LPath(<<>>, "id")>>, <<LPath(<<>>, "ref")>> >>, refer |-> "-"] >>
LCases == IF D.shape = "twofield" THEN {[ty |-> D.ty, cons |-> TwoCons, tree |-> TwoTree, fam |-> "large2"]}
          ELSE {[ty |-> D.ty, cons |-> LCons, tree |-> LTree, fam |-> "large"]}
EmitLarge == phase = "done" =>
    LET exp == DeclKinds(cs) IN
    PrintT(ToJson([ty |-> cs.ty, cons |-> cs.cons, tree |-> cs.tree, fam |-> cs.fam, exp |-> exp, maybe |-> MaybeGiven(cs, exp)]))
\* judged by the declarative layer alone (no step-wise run): used for the largest instances
LInit == cs \in LCases /\ st = S0 /\ nx = 0 /\ phase = "decl"
LNext == FALSE /\ UNCHANGED vars
LSpec == LInit /\ [][LNext]_vars
EmitLargeDecl == phase = "decl" =>
    LET exp == DeclKinds(cs) IN
    PrintT(ToJson([ty |-> cs.ty, cons |-> cs.cons, tree |-> cs.tree, fam |-> cs.fam, exp |-> exp, maybe |-> MaybeGiven(cs, exp)]))
=============================================================================
