SPECIFICATION GSpec
CONSTANTS
  NNames = 3
  Depth = 2
  MaxLen = 5
  WithItems = FALSE
  Sample = 0
ACTION_CONSTRAINT Emit
CHECK_DEADLOCK FALSE
