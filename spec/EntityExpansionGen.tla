------------------------ MODULE EntityExpansionGen ------------------------
(* Binder T for EntityExpansion: one JSON line per finished behaviour (limit, entity definitions, document, expected number of
   reported entity-reference starts, expected fatal class, expected text); the binder renders it at every site / scanner / API. *)
EXTENDS EntityExpansion, Json
EmitT == verdict # "run" =>
    PrintT(ToJson([lim |-> IF lim = NoSM THEN -1 ELSE lim, defs |-> defs, doc |-> doc, started |-> started, fatal |-> verdict,
                   text |-> [i \in 1..Len(text) |-> IF text[i] = 0 THEN "d" ELSE <<"a", "b", "c", "d", "e">>[text[i]]],
                   sites |-> SitesFor(Sites), ext |-> ext, scns |-> ScnSet, apis |-> ApiSet]))
=============================================================================
