SPECIFICATION BigSpec
CONSTANTS
  PrefixSeq <- BigLookupPrefixes
  UriSeq <- BigLookupUris
  ElemPrefixSeq <- NoneSeq
  AttrPrefixSeq <- NoneSeq
  LocalSeq <- NoneSeq
  Versions = {"1.0"}
  MaxDepth = 3
  MaxElems = 3
  MaxDecls = 0
  MaxAttrs = 0
  BuildElems = 0
  BuildDecls = 0
  BuildPrefixSeq <- NoPrefix
  ProbeBudget = 0
  BigNs = {15, 16, 17, 20, 21, 25, 26, 40}
  BigAttrNs = {97, 98, 99, 100, 101, 102}
ACTION_CONSTRAINT EmitT
CHECK_DEADLOCK FALSE
