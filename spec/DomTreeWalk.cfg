SPECIFICATION WSpec
CONSTANTS
  MaxId = 9
  NDocs = 2
  NNames = 3
  NStrs = 3
  MaxData = 4
  MaxOps = 30
  MaxKids = 4
INVARIANT EmitW
INVARIANT TreeInv
CHECK_DEADLOCK FALSE
