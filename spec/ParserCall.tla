------------------------------ MODULE ParserCall ------------------------------
(* Life-cycle shell of one parser call (property C01): 
       Call(api, scanner) -> Report(class)* -> Return(kind)
   kind \in {Ok, HandledFatal, XMLException, SAXException, DOMException, OutOfMemory} - the documented ways a
   call of parse()/loadGrammar() may end.  Nothing else ends a call in this specification: a signal, a sanitizer
   abort, a C++ exception of another type or a call that does not return in time has no action here, so a
   recorded execution that ends that way is rejected by ParserCallTrace.
   OPERATIONAL: Call / Report / Return on the record `call`.
   DECLARATIVE: ReturnSound  - Ok only if no fatal error was reported, HandledFatal only if one was;
                OneReturn    - calls do not nest and every Call is closed by exactly one Return (Closes). *)
EXTENDS Naturals, TLC
CONSTANTS Apis, Scanners, MaxReports
VARIABLE call
Kinds == {"Ok", "HandledFatal", "XMLException", "SAXException", "DOMException", "OutOfMemory"}
Classes == {"warning", "error", "fatal"}
Idle == [phase |-> "idle", api |-> "", scanner |-> "", fatals |-> 0, reports |-> 0, kind |-> "", calls |-> 0, returns |-> 0]
Init == call = Idle
Call(api, sc) == /\ call.phase = "idle"
                 /\ call' = [call EXCEPT !.phase = "in", !.api = api, !.scanner = sc, !.fatals = 0, !.reports = 0, !.kind = "",
                                         !.calls = @ + 1]
Report(cls) == /\ call.phase = "in" /\ cls \in Classes
               /\ call' = [call EXCEPT !.reports = @ + 1, !.fatals = IF cls = "fatal" THEN @ + 1 ELSE @]
ReturnAllowed(kind, fatals) == /\ kind \in Kinds
                               /\ (kind = "Ok" => fatals = 0)
                               /\ (kind = "HandledFatal" => fatals > 0)
Return(kind) == /\ call.phase = "in" /\ ReturnAllowed(kind, call.fatals)
                /\ call' = [call EXCEPT !.phase = "idle", !.kind = kind, !.returns = @ + 1]
Next == \/ \E a \in Apis, s \in Scanners : call.calls < 2 /\ Call(a, s)
        \/ \E c \in Classes : call.reports < MaxReports /\ Report(c)
        \/ \E k \in Kinds : Return(k)
Spec == Init /\ [][Next]_call /\ WF_call(\E k \in Kinds : Return(k))
ReturnSound == (call.phase = "idle" /\ call.kind # "") => ReturnAllowed(call.kind, call.fatals)
OneReturn == call.returns + (IF call.phase = "in" THEN 1 ELSE 0) = call.calls
Closes == (call.phase = "in") ~> (call.phase = "idle")
=============================================================================
