SPECIFICATION Spec
CONSTANTS
  Classes = {"p", "gt", "rsb", "bmp"}
  MaxNodes = 4
  MaxChars = 3
  MaxVal = 3
  MaxDepth = 2
  LeafKinds = {"text", "cdata", "comment", "pi"}
  AttrRanks = {1}
  ElemQNames <- PlainRoot
  Cfgs <- CfgsStruct
INVARIANTS TypeOK StepwiseIsSer ErrorIffInexpressible OutputWellFormed RoundTripContent RoundTripExact NsPreserved SplitOnlyWhereForced WarnIffSplit Idempotent
ACTION_CONSTRAINT EmitT
CHECK_DEADLOCK FALSE
