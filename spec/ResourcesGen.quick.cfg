SPECIFICATION Spec
CONSTANTS
  Apis = {"SAX"}
  Scanners = {"IG", "WF", "DG", "SG"}
  Resolvers = {"none", "part"}
  Vals = {"never", "auto", "always"}
  NsSet = {TRUE}
  SubsetForms = {"rel", "http"}
  HintForms = {"rel"}
  HintKinds = {"none", "nsl", "sl", "nsld"}
INVARIANT TypeOK
INVARIANT OnlyPermittedOpened
INVARIANT NothingWhenDisabled
INVARIANT ResolverFirst
INVARIANT SourceReplacesDefault
INVARIANT BaseIsContainingEntity
INVARIANT AnswersFollowOffers
INVARIANT EmitT
CHECK_DEADLOCK FALSE
