SPECIFICATION GSpec
CONSTANTS
  MaxId = 4
  NDocs = 1
  NNames = 2
  NStrs = 2
  MaxData = 3
  MaxOps = 1
  MaxKids = 4
ACTION_CONSTRAINT EmitT
VIEW GView
CHECK_DEADLOCK FALSE
