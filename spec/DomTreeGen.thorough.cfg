SPECIFICATION Spec
CONSTANTS
  MaxId = 6
  NDocs = 1
  NNames = 2
  NStrs = 2
  MaxData = 3
  MaxOps = 5
  MaxKids = 3
ACTION_CONSTRAINT EmitT

VIEW View
CHECK_DEADLOCK FALSE
