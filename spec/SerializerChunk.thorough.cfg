SPECIFICATION Spec
CONSTANTS
  B = 5
  MaxRun = 10
INVARIANTS InOrderOnce AllEmitted NoOverflow Progress CountIsRest
CHECK_DEADLOCK FALSE
