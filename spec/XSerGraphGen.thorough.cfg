SPECIFICATION Spec
CONSTANTS
  MaxObjs = 4
  BlockSizes = {16, 24}
  BytesLens = {3, 20, 28}
  Tampers = {"none", "clsname"}
  ReadVariant = "sound"
  AsymClass = ""
ACTION_CONSTRAINT EmitT
CHECK_DEADLOCK FALSE
