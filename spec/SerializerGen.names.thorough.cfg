SPECIFICATION Spec
CONSTANTS
  Classes = {"p", "hi"}
  MaxNodes = 4
  MaxChars = 2
  MaxVal = 2
  MaxDepth = 2
  LeafKinds = {"pi", "text", "comment"}
  AttrRanks = {1, 5}
  ElemQNames <- NameElems
  Cfgs <- CfgsNames
INVARIANTS TypeOK StepwiseIsSer ErrorIffInexpressible OutputWellFormed RoundTripContent RoundTripExact NsPreserved SplitOnlyWhereForced WarnIffSplit Idempotent
ACTION_CONSTRAINT EmitT
CHECK_DEADLOCK FALSE
