SPECIFICATION Spec
CONSTANTS
  Blocks = {1, 2, 3}
  Objs = {1, 2}
  MaxOps = 10
  PMgrs = {"p1", "p2"}
  Docs = {1}
  MaxK = 0
  Apis = {0}
INVARIANT TypeOK
INVARIANT LedgerConsistent
INVARIANT ObjectScopedNoLeak
INVARIANT NoTemporariesOutsideCalls
INVARIANT BalancedInitTerm
INVARIANT GlobalOnlyWhileInitialised
PROPERTY LedgerSteps
CHECK_DEADLOCK FALSE
