SPECIFICATION Spec
CONSTANTS
  Classes = {"p", "gt", "rsb", "bmp"}
  MaxNodes = 4
  MaxChars = 2
  MaxVal = 2
  MaxDepth = 2
  LeafKinds = {"text", "cdata", "comment"}
  AttrRanks = {1}
  ElemQNames <- PlainRoot
  Cfgs <- CfgsStructQuick
INVARIANTS TypeOK StepwiseIsSer ErrorIffInexpressible OutputWellFormed RoundTripContent RoundTripExact NsPreserved SplitOnlyWhereForced WarnIffSplit Idempotent
ACTION_CONSTRAINT EmitT
CHECK_DEADLOCK FALSE
