SPECIFICATION Spec
CONSTANTS
  MaxLen = 5
  Templates = {"S1", "S2", "S3", "S4", "S5", "S6", "S7", "S8", "S9", "S10", "S11", "S13", "S14"}
INVARIANT Agree
INVARIANT SameAsFold
INVARIANT UPAClean
INVARIANT UPAAgree
CHECK_DEADLOCK FALSE
