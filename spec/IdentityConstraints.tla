------------------------- MODULE IdentityConstraints -------------------------
(* Property C10: identity constraints (xs:unique, xs:key, xs:keyref) are enforced in the value space.

   DATA.  An instance is the element r (node 0, depth 0) plus a pre-order sequence T of nodes
   <<depth, name, idLex, refLex, textLex>>; a lexical form is <<form, n>> (forms p: "7", z: "07", d: "7.0",
   s: "+7") or NoLex.  Elements f and g are leaves with simple content (g is declared nillable), r a b i have
   element-only content; every element has optional attributes id and ref; attribute and leaf types are all
   xs:string or all xs:decimal (C.ty).  A constraint is [nm, kind, on, sel, flds, refer]: declared on the
   element declaration named `on`; sel is a union (sequence) of paths, flds a sequence of unions of paths;
   a path is [d |-> starts with './/', s |-> sequence of name tests (name or "*"), a |-> "-" or attribute name].

   DECLARATIVE LAYER (XML Schema Part 1, 3.11.4 Identity-constraint Satisfied and 3.11.5 Identity-constraint
   Table), written on the tree with node-set semantics of the XPath subset: DeclKinds(C) is the set of violation
   kinds of the instance.

   OPERATIONAL LAYER, shaped like IdentityConstraintHandler / XPathMatcherStack / ValueStoreCache / ValueStore /
   FieldActivator: the element stream StartElement / Characters / EndElement drives a matcher stack (selector and
   field matchers, one context per open element), value stores (tuple table + current partial tuple), the map of
   key tables in scope (gmap, with a stack of maps: ValueStoreCache::startElement/endElement/transplant) and the
   set of reported violation kinds.  The layer takes a set dv of DEVIATIONS; with dv = {} it is the recommendation
   and TLC checks  final errs = DeclKinds  for every enumerated case.  With dv = Devs it is the pinned code:
     D1  value stores are keyed by (constraint, depth) and cleared when reused, although the enclosing map of key
         tables may still refer to them (ValueStoreCache::initValueStoresFor)
     D2  tables of children are merged without removing conflicting key-sequences (ValueStore::append)
     D3  a keyref whose key has no table in scope is reported even if the keyref selected nothing
         (ValueStore::endDocumentFragment)
     D4  the table of a key/unique that is violated on its element is kept and propagated; by 3.11.5 such a constraint is
         not "eligible" and contributes no entries (only secondary keyref errors of an invalid instance depend on it)
     D5  a field value is stored, and a complete tuple is checked and entered, the moment it is matched; a second
         match of a field overwrites the first and re-enters the tuple (ValueStore::addValue)
     D6  one current tuple and one may-match flag per constraint, shared by nested selected nodes
         (ValueStore::fValues, FieldActivator::fMayMatch)
     D7  once an attribute step of a field path has matched on an element, that path ignores every descendant of
         the element, so  .//@id  never sees a second id below the first (XPathMatcher::startElement: XP_MATCHED_A
         counts as "matched", fNoMatchDepth is raised for the whole subtree)
   The generator emits, next to the expected kinds (declarative layer), the kinds of the coded model, so that a
   disagreement of the real code is either one of these listed deviations or something new. *)
EXTENDS Naturals, Sequences, FiniteSets, TLC

NoLex == <<>>
NoVal == <<"none">>
AllKinds == {"dup-unique", "dup-key", "key-missing", "key-nillable", "keyref", "field-multi"}
Devs == {"D1", "D2", "D3", "D4", "D5", "D6", "D7"}
LeafNames == {"f", "g"}
Nillable(nm) == nm = "g"
EmptyF == [x \in {} |-> {}]
Put(f, k, v) == (k :> v) @@ f
Last(s) == s[Len(s)]
Front(s) == SubSeq(s, 1, Len(s) - 1)

\* ------------------------------------------------------------------------------------------
\* trees
\* ------------------------------------------------------------------------------------------
Depth(T, k) == IF k = 0 THEN 0 ELSE T[k][1]
Name(T, k) == IF k = 0 THEN "r" ELSE T[k][2]
AttrLex(T, k, a) == IF k = 0 THEN NoLex ELSE IF a = "id" THEN T[k][3] ELSE T[k][4]
TextLex(T, k) == IF k = 0 THEN NoLex ELSE T[k][5]
Nodes(T) == 0..Len(T)
Parent(T, k) == CHOOSE j \in 0..(k - 1) : Depth(T, j) = Depth(T, k) - 1 /\ \A m \in (j + 1)..(k - 1) : Depth(T, m) >= Depth(T, k)
Desc(T, a) == IF a = 0 THEN 1..Len(T) ELSE {k \in (a + 1)..Len(T) : \A m \in (a + 1)..k : Depth(T, m) > Depth(T, a)}
AncAt(T, k, d) == CHOOSE j \in 0..k : Depth(T, j) = d /\ \A m \in (j + 1)..k : Depth(T, m) > d
RelPath(T, a, k) == [i \in 1..(Depth(T, k) - Depth(T, a)) |-> Name(T, AncAt(T, k, Depth(T, a) + i))]
WellFormed(T) ==
    \A k \in 1..Len(T) :
       /\ T[k][1] >= 1
       /\ T[k][1] <= (IF k = 1 THEN 1 ELSE T[k - 1][1] + 1)
       /\ Name(T, Parent(T, k)) \notin LeafNames
       /\ (T[k][2] \in LeafNames) <=> (T[k][5] # NoLex)

\* the value space of the field type: decimal 1 = 01 = 1.0 = +1, string: distinct
Val(ty, lx) == IF ty = "decimal" THEN <<"dec", lx[2]>> ELSE <<"str", lx[1], lx[2]>>
Test(t, nm) == t = "*" \/ t = nm
DupKind(c) == IF c.kind = "unique" THEN {"dup-unique"} ELSE IF c.kind = "key" THEN {"dup-key"} ELSE {}
ConIdx(C, nm) == CHOOSE i \in 1..Len(C.cons) : C.cons[i].nm = nm

\* ------------------------------------------------------------------------------------------
\* DECLARATIVE LAYER
\* ------------------------------------------------------------------------------------------
Children(T, e) == {x \in Desc(T, e) : Depth(T, x) = Depth(T, e) + 1}
ChildStep(T, S, t) == {c \in UNION {Children(T, x) : x \in S} : Test(t, Name(T, c))}
RECURSIVE EvalSteps(_, _, _)
EvalSteps(T, S, steps) == IF steps = <<>> THEN S ELSE EvalSteps(T, ChildStep(T, S, Head(steps)), Tail(steps))
PathElems(T, ctx, p) == EvalSteps(T, IF p.d THEN {ctx} \cup Desc(T, ctx) ELSE {ctx}, p.s)
Targets(T, c, e) == UNION {PathElems(T, e, c.sel[i]) : i \in 1..Len(c.sel)}
PathFieldNodes(T, n, p) ==
    IF p.a = "-" THEN {<<"e", k, "-">> : k \in PathElems(T, n, p)}
    ELSE {<<"a", k, p.a>> : k \in {x \in PathElems(T, n, p) : AttrLex(T, x, p.a) # NoLex}}
FieldNodes(T, n, f) == UNION {PathFieldNodes(T, n, f[i]) : i \in 1..Len(f)}
FNLex(T, fn) == IF fn[1] = "e" THEN TextLex(T, fn[2]) ELSE AttrLex(T, fn[2], fn[3])
Multi(T, c, n) == \E i \in 1..Len(c.flds) : Cardinality(FieldNodes(T, n, c.flds[i])) > 1             \* clause 3
Qualified(T, c, n) == \A i \in 1..Len(c.flds) : Cardinality(FieldNodes(T, n, c.flds[i])) = 1         \* clause 4
KeySeq(C, c, n) == [i \in 1..Len(c.flds) |-> Val(C.ty, FNLex(C.tree, CHOOSE fn \in FieldNodes(C.tree, n, c.flds[i]) : TRUE))]
QNodes(C, c, e) == {n \in Targets(C.tree, c, e) : Qualified(C.tree, c, n)}
HasDup(C, c, e) ==     \* two members of the qualified node set with equal key-sequences  <=>  n |-> key-sequence is not injective
    LET q == QNodes(C, c, e) IN Cardinality({KeySeq(C, c, n) : n \in q}) # Cardinality(q)
NilField(T, c, n) == \E i \in 1..Len(c.flds) : \E fn \in FieldNodes(T, n, c.flds[i]) : fn[1] = "e" /\ Nillable(Name(T, fn[2]))

\* clause 4.1 / 4.2 of 3.11.4 holds for key/unique K on its scope element e (then K is "eligible" on e, 3.11.5)
Satisfied(C, K, e) ==
    /\ ~HasDup(C, K, e)
    /\ K.kind = "key" => \A n \in Targets(C.tree, K, e) : Qualified(C.tree, K, n) /\ ~NilField(C.tree, K, n)
\* 3.11.5: the node table of key/unique K in the identity-constraint table of element e
RECURSIVE Table(_, _, _)
Table(C, K, e) ==
    LET T == C.tree
        own == IF Name(T, e) = K.on /\ Satisfied(C, K, e) THEN {<<KeySeq(C, K, n), n>> : n \in QNodes(C, K, e)} ELSE {}
        kids == UNION {Table(C, K, ch) : ch \in Children(T, e)}
        ownT == {x[1] : x \in own}
        fromKids == {x \in kids : x[1] \notin ownT /\ ~\E y \in kids : y[1] = x[1] /\ y[2] # x[2]}
    IN own \cup fromKids

ScopeViol(C, c, e) ==      \* violations of constraint c on scope element e (3.11.4)
    LET T == C.tree tg == Targets(T, c, e) IN
    (IF \E n \in tg : Multi(T, c, n) THEN {"field-multi"} ELSE {})
    \cup (IF c.kind \in {"unique", "key"} /\ HasDup(C, c, e) THEN DupKind(c) ELSE {})
    \cup (IF c.kind = "key" /\ \E n \in tg : ~Qualified(T, c, n) /\ ~Multi(T, c, n) THEN {"key-missing"} ELSE {})
    \cup (IF c.kind = "key" /\ \E n \in QNodes(C, c, e) : NilField(T, c, n) THEN {"key-nillable"} ELSE {})
    \cup (IF c.kind = "keyref" /\ LET inScope == {x[1] : x \in Table(C, C.cons[ConIdx(C, c.refer)], e)}
                                  IN \E n \in QNodes(C, c, e) : KeySeq(C, c, n) \notin inScope THEN {"keyref"} ELSE {})
Scopes(C, c) == {e \in Nodes(C.tree) : Name(C.tree, e) = c.on}
DeclKinds(C) == UNION {UNION {ScopeViol(C, C.cons[ci], e) : e \in Scopes(C, C.cons[ci])} : ci \in 1..Len(C.cons)}
DeclValid(C) == DeclKinds(C) = {}

(* Kinds that are NOT compared with the implementation on this instance:
   - after a field matched twice the node is not qualified; which further errors a streaming processor reports
     for the values it has already seen is not stated by the recommendation;
   - a key/unique that is itself violated is not "eligible" to have a node table (3.11.5), a processor that keeps
     the table anyway differs only in secondary keyref errors of an instance that is invalid already. *)
MaybeGiven(C, exp) ==
    (IF "field-multi" \in exp THEN AllKinds \ {"field-multi"} ELSE {})
    \cup (IF /\ exp \cap {"dup-unique", "dup-key", "key-missing", "key-nillable", "field-multi"} # {}     \* otherwise no key/unique is violated
             /\ \E ci \in 1..Len(C.cons) : C.cons[ci].kind = "keyref" /\
                   LET K == C.cons[ConIdx(C, C.cons[ci].refer)] IN \E e \in Scopes(C, K) : ScopeViol(C, K, e) # {}
          THEN {"keyref"} ELSE {})
MaybeKinds(C) == MaybeGiven(C, DeclKinds(C))

\* ------------------------------------------------------------------------------------------
\* OPERATIONAL LAYER
\* ------------------------------------------------------------------------------------------
MatchPath(p, rel) ==       \* streaming view: the path of element names from the context node to the current element
    LET n == Len(p.s) l == Len(rel) IN
    IF p.d THEN l >= n /\ \A i \in 1..n : Test(p.s[i], rel[l - n + i])
    ELSE l = n /\ \A i \in 1..n : Test(p.s[i], rel[i])
SelMatches(sel, rel) == \E i \in 1..Len(sel) : MatchPath(sel[i], rel)

SKey(dv, ci, depth, root) == IF "D1" \in dv THEN <<ci, "d", depth>> ELSE <<ci, "n", root>>     \* fIC2ValueStoreMap key
CKey(dv, sk, sel) == IF "D6" \in dv THEN <<sk, 0>> ELSE <<sk, sel>>                            \* where the current tuple lives
MKey(dv, ci, sk, sel, f) == IF "D6" \in dv THEN <<ci, f>> ELSE <<sk, sel, f>>                  \* FieldActivator::fMayMatch key
Blank(c) == [vals |-> [i \in 1..Len(c.flds) |-> NoVal], multi |-> FALSE, nil |-> FALSE]
Cnt(cur) == Cardinality({i \in DOMAIN cur.vals : cur.vals[i] # NoVal})
Complete(cur) == \A i \in DOMAIN cur.vals : cur.vals[i] # NoVal
NewStore == [tab |-> {}, dead |-> {}, bad |-> FALSE]
Spoils(c, kinds) == IF c.kind = "key" THEN kinds # {} ELSE IF c.kind = "unique" THEN "dup-unique" \in kinds ELSE FALSE
Tuples(tab) == {x[1] : x \in tab}

S0 == [stack |-> <<>>, stores |-> EmptyF, curs |-> EmptyF, may |-> {}, matchers |-> <<>>, mctx |-> <<>>,
       gmap |-> EmptyF, gstack |-> <<>>, errs |-> {}, content |-> NoLex]

\* ValueStore::addValue (called from FieldMatcher::matched)
AddValue(dv, C, st, m, lex, nilDecl) ==
    LET c == C.cons[m.ic]
        sk == SKey(dv, m.ic, m.depth, m.root)
        ck == CKey(dv, sk, m.sel)
        mk == MKey(dv, m.ic, sk, m.sel, m.f)
        cur == st.curs[ck]
        v == Val(C.ty, lex)
        mayOk == mk \in st.may
    IN IF "D5" \in dv THEN
          LET cur2 == [cur EXCEPT !.vals[m.f] = v]
              full == Complete(cur2)
              tab == st.stores[sk].tab
              dup == full /\ \E x \in tab : x[1] = cur2.vals
              tab2 == IF full THEN {x \in tab : x[1] # cur2.vals} \cup {<<cur2.vals, m.sel>>} ELSE tab
              es == (IF nilDecl /\ c.kind = "key" THEN {"key-nillable"} ELSE {}) \cup (IF ~mayOk THEN {"field-multi"} ELSE {})
                    \cup (IF dup THEN DupKind(c) ELSE {})
          IN [st EXCEPT !.curs = Put(@, ck, cur2),
                        !.stores = Put(@, sk, [st.stores[sk] EXCEPT !.tab = tab2, !.bad = @ \/ Spoils(c, es)]),
                        !.may = @ \ {mk},
                        !.errs = @ \cup es]
       ELSE
          LET cur2 == IF mayOk THEN [cur EXCEPT !.vals[m.f] = v, !.nil = @ \/ nilDecl] ELSE [cur EXCEPT !.multi = TRUE]
              es == IF ~mayOk THEN {"field-multi"} ELSE {}
          IN [st EXCEPT !.curs = Put(@, ck, cur2), !.may = @ \ {mk}, !.errs = @ \cup es,
                        !.stores = Put(@, sk, [st.stores[sk] EXCEPT !.bad = @ \/ Spoils(c, es)])]

RECURSIVE AddValues(_, _, _, _, _, _)
AddValues(dv, C, st, m, lexes, nilDecl) ==
    IF lexes = <<>> THEN st ELSE AddValues(dv, C, AddValue(dv, C, st, m, Head(lexes), nilDecl), m, Tail(lexes), nilDecl)

\* XPathMatcher::startElement of a field matcher: attribute steps are decided at the start tag
FieldStart(dv, C, st, m, k) ==
    LET T == C.tree
        f == C.cons[m.ic].flds[m.f]
        rel == RelPath(T, m.sel, k)
        above == {x \in Nodes(T) : (x = m.sel \/ x \in Desc(T, m.sel)) /\ k \in Desc(T, x)}         \* from the selected node down to k's parent
        shadowed(i) == "D7" \in dv /\ \E x \in above : MatchPath(f[i], RelPath(T, m.sel, x)) /\ AttrLex(T, x, f[i].a) # NoLex
        hit(i) == f[i].a # "-" /\ MatchPath(f[i], rel) /\ AttrLex(T, k, f[i].a) # NoLex /\ ~shadowed(i)
        idx == SelectSeq([i \in 1..Len(f) |-> i], hit)
    IN AddValues(dv, C, st, m, [j \in 1..Len(idx) |-> AttrLex(T, k, f[idx[j]].a)], FALSE)

RECURSIVE ActivateFields(_, _, _, _, _, _)
ActivateFields(dv, C, st, m, k, fi) ==     \* FieldActivator::activateField for fields fi.., then the new matcher sees the start tag
    LET c == C.cons[m.ic] IN
    IF fi > Len(c.flds) THEN st
    ELSE LET sk == SKey(dv, m.ic, m.depth, m.root)
             fm == [t |-> "fld", ic |-> m.ic, root |-> m.root, depth |-> m.depth, sel |-> k, f |-> fi]
             st1 == [st EXCEPT !.matchers = Append(@, fm), !.may = @ \cup {MKey(dv, m.ic, sk, k, fi)}]
         IN ActivateFields(dv, C, FieldStart(dv, C, st1, fm, k), m, k, fi + 1)

\* SelectorMatcher::startElement on a selected node: ValueStore::startValueScope + field activation
StartValueScope(dv, C, st, m, k) ==
    LET sk == SKey(dv, m.ic, m.depth, m.root)
        st1 == [st EXCEPT !.curs = Put(@, CKey(dv, sk, k), Blank(C.cons[m.ic]))]
    IN ActivateFields(dv, C, st1, m, k, 1)

RECURSIVE StartLoop(_, _, _, _, _, _)
StartLoop(dv, C, st, k, j, count) ==       \* "call all active identity constraints"
    IF j > count THEN st
    ELSE LET m == st.matchers[j]
             st1 == IF m.t = "sel"
                    THEN (IF k # m.root /\ SelMatches(C.cons[m.ic].sel, RelPath(C.tree, m.root, k))
                          THEN StartValueScope(dv, C, st, m, k) ELSE st)
                    ELSE FieldStart(dv, C, st, m, k)
         IN StartLoop(dv, C, st1, k, j + 1, count)

\* IdentityConstraintHandler::activateIdentityConstraint
DoStart(dv, C, st, k) ==
    LET T == C.tree
        d == Depth(T, k)
        own == SelectSeq([i \in 1..Len(C.cons) |-> i], LAMBDA i : C.cons[i].on = Name(T, k))
        st1 == [st EXCEPT !.gstack = Append(@, st.gmap), !.gmap = EmptyF,                       \* ValueStoreCache::startElement
                          !.mctx = Append(@, Len(st.matchers)),                               \* XPathMatcherStack::pushContext
                          !.stack = Append(@, k), !.content = NoLex,
                          !.stores = [sk \in {SKey(dv, own[j], d, k) : j \in 1..Len(own)} |-> NewStore] @@ @,   \* initValueStoresFor: new or cleared
                          !.matchers = @ \o [j \in 1..Len(own) |-> [t |-> "sel", ic |-> own[j], root |-> k, depth |-> d, sel |-> 0, f |-> 0]]]
    IN StartLoop(dv, C, st1, k, 1, Len(st1.matchers))

DoChars(C, st, k) == [st EXCEPT !.content = TextLex(C.tree, k)]

\* SelectorMatcher::endElement on a selected node: ValueStore::endValueScope
EndValueScope(dv, C, st, m, k) ==
    LET c == C.cons[m.ic]
        sk == SKey(dv, m.ic, m.depth, m.root)
        cur == st.curs[CKey(dv, sk, k)]
        short == c.kind = "key" /\ Cnt(cur) # Len(c.flds)
        miss == [st EXCEPT !.errs = @ \cup (IF short THEN {"key-missing"} ELSE {}),
                           !.stores = Put(@, sk, [st.stores[sk] EXCEPT !.bad = @ \/ short])]
    IN IF "D5" \in dv THEN miss
       ELSE IF cur.multi THEN st
       ELSE IF ~Complete(cur) THEN miss
       ELSE LET tab == st.stores[sk].tab
                dup == \E x \in tab : x[1] = cur.vals
                es == (IF dup THEN DupKind(c) ELSE {}) \cup (IF cur.nil /\ c.kind = "key" THEN {"key-nillable"} ELSE {})
            IN [st EXCEPT !.stores = Put(@, sk, [st.stores[sk] EXCEPT !.tab = tab \cup {<<cur.vals, k>>}, !.bad = @ \/ Spoils(c, es)]),
                          !.errs = @ \cup es]

RECURSIVE EndLoop(_, _, _, _, _)
EndLoop(dv, C, st, k, j) ==                \* matchers see the end tag, last activated first
    IF j = 0 THEN st
    ELSE LET m == st.matchers[j]
             T == C.tree
             st1 == IF m.t = "fld"
                    THEN LET f == C.cons[m.ic].flds[m.f]
                             rel == RelPath(T, m.sel, k)
                         IN IF \E i \in 1..Len(f) : f[i].a = "-" /\ MatchPath(f[i], rel)
                            THEN AddValue(dv, C, st, m, st.content, Nillable(Name(T, k))) ELSE st
                    ELSE IF k # m.root /\ SelMatches(C.cons[m.ic].sel, RelPath(T, m.root, k))
                         THEN EndValueScope(dv, C, st, m, k) ELSE st
         IN EndLoop(dv, C, st1, k, j - 1)

\* ValueStore::append as coded (D2) / the table merge of 3.11.5
AppendCoded(acc, other) == LET have == Tuples(acc.tab) IN [acc EXCEPT !.tab = @ \cup {e \in other.tab : e[1] \notin have}]
MergeOwn(acc, own) == LET mine == Tuples(own.tab) IN [acc EXCEPT !.tab = own.tab \cup {e \in acc.tab : e[1] \notin mine}]      \* own entries win
MergeKids(cur, old) ==
    LET conflicts == {x[1] : x \in {x \in cur.tab : \E y \in old.tab : y[1] = x[1] /\ y[2] # x[2]}}
        dead == old.dead \cup conflicts
    IN [tab |-> {e \in cur.tab \cup old.tab : e[1] \notin dead}, dead |-> dead, bad |-> FALSE]

\* ValueStoreCache::transplant
Transplant(dv, st, m) ==
    LET new == SKey(dv, m.ic, m.depth, m.root) IN
    IF "D4" \notin dv /\ st.stores[new].bad THEN st         \* not eligible: contributes no entries
    ELSE IF m.ic \in DOMAIN st.gmap
    THEN LET ck == st.gmap[m.ic]
         IN [st EXCEPT !.stores = Put(@, ck, IF "D2" \in dv THEN AppendCoded(st.stores[ck], st.stores[new])
                                               ELSE MergeOwn(st.stores[ck], st.stores[new]))]
    ELSE [st EXCEPT !.gmap = Put(@, m.ic, new)]

\* ValueStore::endDocumentFragment of a keyref
KeyrefCheck(dv, C, st, m) ==
    LET own == st.stores[SKey(dv, m.ic, m.depth, m.root)]
        K == ConIdx(C, C.cons[m.ic].refer)
    IN IF K \notin DOMAIN st.gmap
       THEN [st EXCEPT !.errs = @ \cup (IF "D3" \in dv \/ own.tab # {} THEN {"keyref"} ELSE {})]
       ELSE LET inScope == Tuples(st.stores[st.gmap[K]].tab)
            IN [st EXCEPT !.errs = @ \cup (IF \E e \in own.tab : e[1] \notin inScope THEN {"keyref"} ELSE {})]

RECURSIVE PoppedLoop(_, _, _, _, _, _)
PoppedLoop(dv, C, st, popped, j, keyrefs) ==      \* j from Len(popped) down to 1
    IF j = 0 THEN st
    ELSE LET m == popped[j]
             isRef == C.cons[m.ic].kind = "keyref"
             st1 == IF m.t # "sel" \/ isRef # keyrefs THEN st
                    ELSE IF keyrefs THEN KeyrefCheck(dv, C, st, m) ELSE Transplant(dv, st, m)
         IN PoppedLoop(dv, C, st1, popped, j - 1, keyrefs)

\* ValueStoreCache::endElement
RECURSIVE CacheMerge(_, _, _, _)
CacheMerge(dv, st, old, todo) ==
    IF todo = {} THEN st
    ELSE LET ci == CHOOSE x \in todo : TRUE IN
         IF ci \notin DOMAIN st.gmap THEN CacheMerge(dv, [st EXCEPT !.gmap = Put(@, ci, old[ci])], old, todo \ {ci})
         ELSE LET ck == st.gmap[ci]
                  merged == IF "D2" \in dv THEN AppendCoded(st.stores[ck], st.stores[old[ci]]) ELSE MergeKids(st.stores[ck], st.stores[old[ci]])
              IN CacheMerge(dv, [st EXCEPT !.stores = Put(@, ck, merged)], old, todo \ {ci})
CacheEnd(dv, st) ==
    LET old == Last(st.gstack)
        fresh == [sk \in {st.gmap[ci] : ci \in DOMAIN st.gmap} |-> [st.stores[sk] EXCEPT !.dead = {}]] @@ st.stores
        st1 == [st EXCEPT !.gstack = Front(@), !.stores = fresh]
    IN CacheMerge(dv, st1, old, DOMAIN old)

\* IdentityConstraintHandler::deactivateContext
DoEnd(dv, C, st, k) ==
    LET count == Len(st.matchers)
        st1 == EndLoop(dv, C, st, k, count)
        newCount == Last(st1.mctx)
        popped == SubSeq(st1.matchers, newCount + 1, count)
        st2 == [st1 EXCEPT !.matchers = SubSeq(@, 1, newCount), !.mctx = Front(@)]       \* popContext
        st3 == PoppedLoop(dv, C, st2, popped, Len(popped), FALSE)                        \* everything but keyrefs: transplant
        st4 == PoppedLoop(dv, C, st3, popped, Len(popped), TRUE)                         \* keyrefs: verify references
        st5 == CacheEnd(dv, st4)
    IN [st5 EXCEPT !.stack = Front(@)]

\* the element stream of a tree: which event comes next when node nx is the next to start
NextIsStart(T, stack, nx) == nx <= Len(T) /\ (stack = <<>> => nx = 0) /\ (stack # <<>> => nx > 0 /\ Depth(T, nx) > Depth(T, Last(stack)))
RECURSIVE Run(_, _, _, _)
Run(dv, C, st, nx) ==      \* the whole run as one function (used for the coded model and for order independence)
    IF NextIsStart(C.tree, st.stack, nx)
    THEN LET s1 == DoStart(dv, C, st, nx) IN Run(dv, C, IF TextLex(C.tree, nx) # NoLex THEN DoChars(C, s1, nx) ELSE s1, nx + 1)
    ELSE IF st.stack # <<>> THEN Run(dv, C, DoEnd(dv, C, st, Last(st.stack)), nx)
    ELSE st
OpKinds(dv, C) == Run(dv, C, S0, 0).errs

\* sibling permutation: swap the subtree at a with the next sibling subtree
SubEnd(T, a) == a + Cardinality(Desc(T, a))
Swappable(T, a) == SubEnd(T, a) + 1 <= Len(T) /\ Depth(T, SubEnd(T, a) + 1) = Depth(T, a)
Swap(T, a) == LET b == SubEnd(T, a) + 1 IN SubSeq(T, 1, a - 1) \o SubSeq(T, b, SubEnd(T, b)) \o SubSeq(T, a, b - 1) \o SubSeq(T, SubEnd(T, b) + 1, Len(T))

\* ------------------------------------------------------------------------------------------
\* the state machine: a case is chosen, then the stream is processed event by event
\* ------------------------------------------------------------------------------------------
CONSTANT Cases          \* set of cases [ty, cons, tree, fam]
VARIABLES cs, st, nx, phase
vars == <<cs, st, nx, phase>>

Init == cs \in Cases /\ st = S0 /\ nx = 0 /\ phase = "run"
StartElement == /\ phase = "run" /\ NextIsStart(cs.tree, st.stack, nx)
                /\ st' = DoStart({}, cs, st, nx)
                /\ phase' = IF TextLex(cs.tree, nx) # NoLex THEN "text" ELSE "run"
                /\ nx' = nx + 1 /\ UNCHANGED cs
Characters == /\ phase = "text"
              /\ st' = DoChars(cs, st, nx - 1)
              /\ phase' = "run" /\ UNCHANGED <<cs, nx>>
EndElement == /\ phase = "run" /\ ~NextIsStart(cs.tree, st.stack, nx) /\ st.stack # <<>>
              /\ st' = DoEnd({}, cs, st, Last(st.stack))
              /\ UNCHANGED <<cs, nx, phase>>
EndDocument == /\ phase = "run" /\ st.stack = <<>> /\ nx > 0
               /\ phase' = "done" /\ UNCHANGED <<cs, st, nx>>
Next == StartElement \/ Characters \/ EndElement \/ EndDocument
Spec == Init /\ [][Next]_vars

\* ---- properties checked by TLC ----
\* C10 on the specification: the streaming machine reports exactly the violations of the recommendation
VerdictMatchesDeclarative == phase = "done" => st.errs = DeclKinds(cs)
\* the verdict does not depend on the document order of keys and references (sibling subtrees permuted)
VerdictIndependentOfOrder ==
    phase = "done" => \A a \in 1..Len(cs.tree) : Swappable(cs.tree, a) =>
        LET C2 == [cs EXCEPT !.tree = Swap(cs.tree, a)] IN DeclKinds(C2) = DeclKinds(cs) /\ OpKinds({}, C2) = st.errs
\* the step-wise machine and the run function agree; everything is popped at the end
RunAgrees == phase = "done" => /\ OpKinds({}, cs) = st.errs
                               /\ st.matchers = <<>> /\ st.mctx = <<>> /\ st.gstack = <<>>
\* structural invariants of the machine
StackInv == /\ Len(st.mctx) = Len(st.stack) /\ Len(st.gstack) = Len(st.stack)
            /\ \A j \in 1..Len(st.matchers) : st.matchers[j].root \in {st.stack[i] : i \in 1..Len(st.stack)}
            /\ \A sk \in DOMAIN st.stores : \A x \in st.stores[sk].tab : \A i \in DOMAIN x[1] : x[1][i] # NoVal
\* a unique/key table holds two nodes with the same key-sequence only if the duplicate was reported
DupReported == \A sk \in DOMAIN st.stores :
                  (\E x, y \in st.stores[sk].tab : x[1] = y[1] /\ x[2] # y[2]) => (DupKind(cs.cons[sk[1]]) \subseteq st.errs)
CasesWellFormed == WellFormed(cs.tree)
=============================================================================
