\* termination: under fairness of the reader's own steps and of the consumer every behaviour reaches noMore (or the error state)
SPECIFICATION Spec
CONSTANTS
  KChar = 3
  KRaw = 4
  MaxLen = 2
  Widths = {1, 3, 4}
  LowWaters = {0, 2}
  AllowTrunc = TRUE
  FixedEof = TRUE
  MaxWant = 1
PROPERTY Terminates
CHECK_DEADLOCK FALSE
