------------------------------ MODULE MemLedger ------------------------------
(* Property C18: MemoryManager discipline and the Initialize/Terminate life cycle are leak-free.

   OPERATIONAL LAYER (ownership discipline as the library implements it).  Two managers: "g" = the manager given to
   XMLPlatformUtils::Initialize (or the library's default one), PMgrs = the managers given to object constructors (one per parser; an adopted document shares its parser's).
     outstanding[m]   blocks obtained from m and not yet returned
     owner[b]         who is responsible for returning b: "free", "static" (library statics, released by Terminate),
                      <<"obj", o>> (members of object o, released by its destructor), <<"tmp", o>> (temporaries of the call in
                      progress on o, released by Janitors / catch blocks on EVERY exit path of the call)
     objs[o]          "none" | "parser" | "doc": live objects (all given manager "p"); a document is split off a parser by adoptDocument
     call             the object whose parse call is in progress (0 = none), prog = objects with a progressive parse left open
     initCount, globalMgr in {none, default, user}, mgrAdopted (fgMemMgrAdopted), userDeleted, phase (idle/init/term)
   Actions: InitCall/InitRet, TermCall/TermRet, AllocStatic, Create, Destroy, BeginCall, AllocTmp, AllocMember, FreeMember,
   EndCall(how in {ok, fatal, handler, left-open}), Adopt, with Alloc/Dealloc as the only way the ledger changes.

   DECLARATIVE LAYER (the listed property, on the ledger alone).
     NoForeignFree / NoDoubleFree   Dealloc(m, b) happens only for b in outstanding[m]  (CanDealloc; action property LedgerSteps)
     ObjectScopedNoLeak             when no object given manager m is alive, outstanding[m] = {}
     NoTemporariesOutsideCalls      between calls every outstanding block of "p" belongs to a live object
     BalancedInitTerm               initCount = 0 (and no Initialize/Terminate in progress) => outstanding["g"] = {} and
                                    globalMgr = none; the user's manager is never deleted; re-initialisation starts from the same state
   MemLedgerTrace.tla checks the same ledger predicates on every allocate/deallocate/Create/Destroy/Init/Term event recorded
   from the real library. *)
EXTENDS Naturals, FiniteSets, TLC

CONSTANTS Blocks, Objs, MaxOps,
          PMgrs,      \* managers given to object constructors, e.g. {"p1", "p2"}
          Docs, MaxK, Apis   \* operands that only label the history (document parsed, handler exception at callback k, parser class)

Mgrs == {"g"} \cup PMgrs
Modes == {"parse", "open", "drain"}     \* parse(); parseFirst + some parseNext, left open; parseFirst + parseNext to the end
VARIABLES outstanding, owner, mgrOf, objs, objMgr, cmode, call, prog, initCount, globalMgr, mgrAdopted, userDeleted, phase, last, nops
ledger == <<outstanding, initCount, globalMgr>>
vars == <<outstanding, owner, mgrOf, objs, objMgr, cmode, call, prog, initCount, globalMgr, mgrAdopted, userDeleted, phase, last, nops>>

\* --- the ledger predicates shared with the trace specification
CanAlloc(m, b) == b \notin outstanding[m]                       \* an allocator never hands out a live address
CanDealloc(m, b) == b \in outstanding[m]                        \* NoForeignFree / NoDoubleFree
AfterAlloc(m, b) == [outstanding EXCEPT ![m] = @ \cup {b}]
AfterDealloc(m, b) == [outstanding EXCEPT ![m] = @ \ {b}]
GlobalUsable == initCount > 0 \/ phase \in {"init", "term"}     \* the global manager is only used while the library is initialised

FREE == <<"free", 0>>
STATIC == <<"static", 0>>
Free(b) == owner[b] = FREE
Alloc(m, b, tag) == /\ Free(b) /\ CanAlloc(m, b)
                    /\ outstanding' = AfterAlloc(m, b) /\ owner' = [owner EXCEPT ![b] = tag] /\ mgrOf' = [mgrOf EXCEPT ![b] = m]
DeallocSet(S) == /\ \A b \in S : CanDealloc(mgrOf[b], b)
                 /\ outstanding' = [m \in Mgrs |-> outstanding[m] \ {b \in S : mgrOf[b] = m}]
                 /\ owner' = [b \in Blocks |-> IF b \in S THEN FREE ELSE owner[b]] /\ UNCHANGED mgrOf
OwnedBy(tag) == {b \in Blocks : owner[b] = tag}
Live == {o \in Objs : objs[o] # "none"}
Idle == phase = "idle" /\ call = 0

Init == /\ outstanding = [m \in Mgrs |-> {}] /\ owner = [b \in Blocks |-> FREE] /\ mgrOf = [b \in Blocks |-> "g"]
        /\ objs = [o \in Objs |-> "none"] /\ objMgr = [o \in Objs |-> "g"] /\ cmode = "parse" /\ call = 0 /\ prog = {} /\ initCount = 0 /\ globalMgr = "none" /\ mgrAdopted = FALSE
        /\ userDeleted = FALSE /\ phase = "idle" /\ last = <<"init">> /\ nops = 0

\* XMLPlatformUtils::Initialize(locale, nlsHome, panicHandler, memoryManager)
InitCall(user) == /\ Idle /\ phase' = "init"
                  /\ IF initCount = 0 THEN globalMgr' = (IF user THEN "user" ELSE "default") /\ mgrAdopted' = ~user
                                      ELSE UNCHANGED <<globalMgr, mgrAdopted>>          \* nested call: arguments ignored
                  /\ last' = <<"InitCall", user>>
                  /\ UNCHANGED <<outstanding, owner, mgrOf, objs, objMgr, cmode, call, prog, initCount, userDeleted>>
AllocStatic(b) == /\ GlobalUsable /\ (phase = "init" => initCount = 0) /\ phase # "term"
                  /\ Alloc("g", b, STATIC) /\ last' = <<"A", "g", b>>
                  /\ UNCHANGED <<objs, objMgr, cmode, call, prog, initCount, globalMgr, mgrAdopted, userDeleted, phase>>
InitRet == /\ phase = "init" /\ phase' = "idle" /\ initCount' = initCount + 1 /\ last' = <<"Init", initCount + 1>>
           /\ UNCHANGED <<outstanding, owner, mgrOf, objs, objMgr, cmode, call, prog, globalMgr, mgrAdopted, userDeleted>>
\* XMLPlatformUtils::Terminate: only the last one releases anything (gInitFlag reference count)
TermCall == /\ Idle /\ initCount > 0 /\ (initCount = 1 => Live = {}) /\ phase' = "term" /\ last' = <<"TermCall">>
            /\ UNCHANGED <<outstanding, owner, mgrOf, objs, objMgr, cmode, call, prog, initCount, globalMgr, mgrAdopted, userDeleted>>
TermRet == /\ phase = "term" /\ phase' = "idle" /\ initCount' = initCount - 1 /\ last' = <<"Term", initCount - 1>>
           /\ IF initCount = 1
              THEN /\ DeallocSet(OwnedBy(STATIC))                                  \* XMLInitializer::terminateStaticData + the rest
                   /\ globalMgr' = "none" /\ mgrAdopted' = FALSE
                   /\ userDeleted' = userDeleted                                     \* delete fgMemoryManager only if fgMemMgrAdopted
              ELSE UNCHANGED <<outstanding, owner, mgrOf, globalMgr, mgrAdopted, userDeleted>>
           /\ UNCHANGED <<objs, objMgr, cmode, call, prog>>

Create(o, m, b, api) == /\ Idle /\ initCount > 0 /\ objs[o] = "none" /\ m \in PMgrs
                /\ Alloc(m, b, <<"obj", o>>) /\ objs' = [objs EXCEPT ![o] = "parser"] /\ objMgr' = [objMgr EXCEPT ![o] = m]
                /\ last' = <<"Create", o, m, api>>
                /\ UNCHANGED <<cmode, call, prog, initCount, globalMgr, mgrAdopted, userDeleted, phase>>
Destroy(o) == /\ Idle /\ objs[o] # "none"
              /\ DeallocSet(OwnedBy(<<"obj", o>>)) /\ objs' = [objs EXCEPT ![o] = "none"] /\ prog' = prog \ {o} /\ last' = <<"Destroy", o>>
              /\ UNCHANGED <<objMgr, cmode, call, initCount, globalMgr, mgrAdopted, userDeleted, phase>>
BeginCall(o, d, k, mode) ==
                /\ Idle /\ initCount > 0 /\ objs[o] = "parser" /\ call' = o /\ cmode' = mode /\ prog' = prog \ {o}
                /\ last' = <<"BeginCall", o, d, k, mode>>
                /\ UNCHANGED <<outstanding, owner, mgrOf, objs, objMgr, initCount, globalMgr, mgrAdopted, userDeleted, phase>>
AllocTmp(b) == /\ call # 0 /\ Alloc(objMgr[call], b, <<"tmp", call>>) /\ last' = <<"A", objMgr[call], b>>
               /\ UNCHANGED <<objs, objMgr, cmode, call, prog, initCount, globalMgr, mgrAdopted, userDeleted, phase>>
AllocMember(b) == /\ call # 0 /\ Alloc(objMgr[call], b, <<"obj", call>>) /\ last' = <<"A", objMgr[call], b>>      \* grown buffers, DOM nodes, grammars
                  /\ UNCHANGED <<objs, objMgr, cmode, call, prog, initCount, globalMgr, mgrAdopted, userDeleted, phase>>
FreeMember(b) == /\ call # 0 /\ owner[b] = <<"obj", call>> /\ DeallocSet({b}) /\ last' = <<"D", objMgr[call], b>>
                 /\ UNCHANGED <<objs, objMgr, cmode, call, prog, initCount, globalMgr, mgrAdopted, userDeleted, phase>>
\* the call ends: normally, with a fatal error, with an exception thrown by an application handler, or (progressive) left open.
\* On EVERY path the temporaries are released; a run left open keeps its readers as members until the next reset / the destructor.
EndCall(how) == /\ call # 0 /\ (how = "left-open") = (cmode = "open")
                /\ IF how = "left-open"
                   THEN /\ owner' = [b \in Blocks |-> IF owner[b] = <<"tmp", call>> THEN <<"obj", call>> ELSE owner[b]]
                        /\ prog' = prog \cup {call} /\ UNCHANGED <<outstanding, mgrOf>>
                   ELSE DeallocSet(OwnedBy(<<"tmp", call>>)) /\ UNCHANGED prog
                /\ call' = 0 /\ last' = <<"EndCall", call, how>>
                /\ UNCHANGED <<objs, objMgr, cmode, initCount, globalMgr, mgrAdopted, userDeleted, phase>>
\* adoptDocument: the document (some of the parser's blocks) becomes an object of its own, to be released by the application
Adopt(o, d, S) == /\ Idle /\ objs[o] = "parser" /\ objs[d] = "none" /\ S \subseteq OwnedBy(<<"obj", o>>) /\ S # {}
                  /\ owner' = [b \in Blocks |-> IF b \in S THEN <<"obj", d>> ELSE owner[b]] /\ objs' = [objs EXCEPT ![d] = "doc"]
                  /\ objMgr' = [objMgr EXCEPT ![d] = objMgr[o]] /\ last' = <<"Adopt", o, d>>
                  /\ UNCHANGED <<outstanding, mgrOf, cmode, call, prog, initCount, globalMgr, mgrAdopted, userDeleted, phase>>

Cnt == nops < MaxOps /\ nops' = nops + 1
DoInitCall(u) == Cnt /\ InitCall(u)
DoAllocStatic(b) == Cnt /\ AllocStatic(b)
DoInitRet == Cnt /\ InitRet
DoTermCall == Cnt /\ TermCall
DoTermRet == Cnt /\ TermRet
DoCreate(o, m, b, api) == Cnt /\ Create(o, m, b, api)
DoDestroy(o) == Cnt /\ Destroy(o)
DoBeginCall(o, d, k, mode) == Cnt /\ BeginCall(o, d, k, mode)
DoAllocTmp(b) == Cnt /\ AllocTmp(b)
DoAllocMember(b) == Cnt /\ AllocMember(b)
DoFreeMember(b) == Cnt /\ FreeMember(b)
DoEndCall(h) == Cnt /\ EndCall(h)
DoAdopt(o, d, S) == Cnt /\ Adopt(o, d, S)
Next == \/ \E u \in BOOLEAN : DoInitCall(u)
        \/ \E b \in Blocks : DoAllocStatic(b) \/ DoAllocTmp(b) \/ DoAllocMember(b) \/ DoFreeMember(b)
        \/ DoInitRet \/ DoTermCall \/ DoTermRet
        \/ \E o \in Objs, m \in PMgrs, b \in Blocks, api \in Apis : DoCreate(o, m, b, api)
        \/ \E o \in Objs : DoDestroy(o)
        \/ \E o \in Objs, d \in Docs, k \in 0..MaxK, mode \in Modes : DoBeginCall(o, d, k, mode)
        \/ \E h \in {"ok", "fatal", "handler", "left-open"} : DoEndCall(h)
        \/ \E o, d \in Objs : \E S \in SUBSET Blocks : DoAdopt(o, d, S)
Spec == Init /\ [][Next]_vars

\* ---------------------------------------------------------------------------------------------------------------------
TypeOK == /\ outstanding \in [Mgrs -> SUBSET Blocks] /\ initCount \in 0..MaxOps /\ globalMgr \in {"none", "default", "user"}
          /\ call \in Objs \cup {0} /\ phase \in {"idle", "init", "term"}
LedgerConsistent == \A m \in Mgrs : outstanding[m] = {b \in Blocks : ~Free(b) /\ mgrOf[b] = m}
ObjectScopedNoLeak == \A m \in PMgrs : ({o \in Live : objMgr[o] = m} = {} /\ call = 0) => outstanding[m] = {}
NoTemporariesOutsideCalls == call = 0 => \A m \in PMgrs : \A b \in outstanding[m] : \E o \in Live : owner[b] = <<"obj", o>> /\ objMgr[o] = m
BalancedInitTerm == /\ (initCount = 0 /\ phase = "idle") => (outstanding["g"] = {} /\ globalMgr = "none" /\ ~mgrAdopted)
                    /\ (initCount > 0) => globalMgr # "none"
                    /\ ~userDeleted
                    /\ (mgrAdopted => globalMgr = "default")
GlobalOnlyWhileInitialised == outstanding["g"] # {} => GlobalUsable
\* every change of the ledger is an allocation of a free address or the return of an outstanding one
LedgerSteps == [][\A m \in Mgrs : \A b \in Blocks :
                     /\ (b \in outstanding'[m] /\ b \notin outstanding[m]) => CanAlloc(m, b)
                     /\ (b \notin outstanding'[m] /\ b \in outstanding[m]) => CanDealloc(m, b)]_vars
=============================================================================
