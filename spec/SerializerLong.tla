---------------------------- MODULE SerializerLong ----------------------------
(* Scaled cases for the block loops of XMLFormatter (handleUnEscapedChars, specialFormat, formatBuf: kTmpBufSize = 16384).
   A case is one node (text, attribute value, CDATA section, comment) whose value is ONE class repeated N times.
   TLC checks on n = 1, 2, 3 that serialisation is uniform in the number of repetitions,
        Flat(Ser(v^n)) = pre \o unit^n \o suf      and      Parse(Ser(v^n)) = Parse(Ser(v^1)) with every value repeated n times,
   and emits  [doc with v^1, cfg, N, err, warn, pre, unit, suf, Parse(Ser(v^1)), eq, tags]  for every N of Lengths; the binder
   expands the run lengths (N around the block size in code units and in UTF-8 bytes) and compares text, re-parsed tree,
   isEqualNode and second serialisation exactly as for the short cases.  SerializerChunk models the loop itself. *)
EXTENDS SerializerMC, Json
CONSTANTS Lengths, LongClasses, LongKinds
VARIABLE c
NodeT(x) == <<x.k, x.d, x.n, x.p, x.u, x.r, x.v>>
DocT(d) == [j \in 1..Len(d) |-> NodeT(d[j])]
LCfgs == CfgSet(AllEncs, BOOLEAN, {FALSE}, {"decl"}, {FALSE})
LInit == /\ Init
         /\ c \in [k : LongKinds, ch : LongClasses, cfg : LCfgs]
LSpec == LInit /\ [][FALSE]_<<vars, c>>
Rep1(x, n) == [j \in 1..n |-> x]
DocN(n) == << Node("elem", 0, "a", "", "", 0, <<>>),
              IF c.k = "attr" THEN Node("attr", 1, "b", "", "", 1, Rep1(c.ch, n)) ELSE Node(c.k, 1, "", "", "", 0, Rep1(c.ch, n)) >>
S(n) == Ser(DocN(n), c.cfg)
F(n) == Flat(S(n).out)
IsData(it) == it[1] \in {"c", "e", "r"}
First == CHOOSE j \in 1..Len(F(1)) : IsData(F(1)[j]) /\ \A m \in 1..(j - 1) : ~IsData(F(1)[m])
ULen == Len(F(2)) - Len(F(1))
Pre == SubSeq(F(1), 1, First - 1)
Unit == SubSeq(F(1), First, First + ULen - 1)
Suf == SubSeq(F(1), First + ULen, Len(F(1)))
RECURSIVE Times(_, _)
Times(s, n) == IF n = 0 THEN <<>> ELSE s \o Times(s, n - 1)
Scale(d, n) == [j \in 1..Len(d) |-> [d[j] EXCEPT !.v = Concat([m \in 1..Len(d[j].v) |-> Rep1(d[j].v[m], n)])]]
Uniform == /\ S(2).err = S(1).err /\ S(3).err = S(1).err /\ S(2).warn = S(1).warn
           /\ ~S(1).err => /\ \E j \in 1..Len(F(1)) : IsData(F(1)[j])
                           /\ \A j \in 1..Len(Suf) : ~IsData(Suf[j])
                           /\ \A n \in 1..3 : /\ F(n) = Pre \o Times(Unit, n) \o Suf
                                              /\ Parse(S(n).out) = Scale(Parse(S(1).out), n)
EmitL == \A n \in Lengths :
            PrintT(ToJson(<< DocT(DocN(1)), <<c.cfg.enc, c.cfg.split, c.cfg.v11, c.cfg.top, c.cfg.bom>>, n, S(1).err, S(1).warn,
                             (IF S(1).err THEN <<>> ELSE Pre), (IF S(1).err THEN <<>> ELSE Unit), (IF S(1).err THEN <<>> ELSE Suf),
                             (IF S(1).err THEN <<>> ELSE DocT(Parse(S(1).out))), ~S(1).err /\ Parse(S(1).out) = DocN(1), Tags(DocN(1), c.cfg) >>))
=============================================================================
