SPECIFICATION Spec
CONSTANTS
  NF = 3
  Budget = 2
  DirCodes = {1}
  Odd = TRUE
INVARIANT EmitCase
