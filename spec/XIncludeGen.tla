---------------------------- MODULE XIncludeGen ----------------------------
(* Binder T for XInclude: one JSON line per terminal state of the machine = one file system (inclusion graph) with the
   specified outcome: the expanded tree with the directory every element's base URI must resolve into, or the class of the
   fatal error; the files that are loaded; the number of resource errors recovered by a fallback; and whether the main
   document nests an include inside another include (where xerces-c's bottom-up pass is known to differ).
   The harness materialises fs on disk and parses file 1 with XercesDOMParser and DOMLSParser. *)
EXTENDS XInclude, Json
Case == [fs |-> fs,
         res |-> IF pc = "done" THEN "ok" ELSE "err",
         tree |-> IF pc = "done" THEN Result ELSE <<>>,
         err |-> err,
         loads |-> loads,
         warn |-> warn,
         eager |-> eager,
         top |-> Len(stack[1].done),       \* number of top-level items produced (diagnostic for root-not-element)
         \* where a loop closes: <<including document, target, kind of the including document's document element,
         \*                        directory of the document that included the including document, directory of the including document>>
         loopAt |-> IF err = "loop"
                    THEN <<Top.src, CurT, Root(Top.src)[1],
                           Dir(IF Len(hist) >= 2 THEN hist[Len(hist) - 1] ELSE Main), Dir(Top.src)>>
                    ELSE <<>>]
EmitCase == pc \in {"done", "failed"} => PrintT(ToJson(Case))
=============================================================================
