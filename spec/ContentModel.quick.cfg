SPECIFICATION Spec
CONSTANTS
  NNames = 3
  Depth = 2
  MaxLen = 4
  WithItems = FALSE
INVARIANT Agree
INVARIANT PosAgree
INVARIANT TypeOK
CHECK_DEADLOCK FALSE
