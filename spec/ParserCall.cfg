SPECIFICATION Spec
CONSTANTS
  Apis = {"SAX", "SAX2", "DOM", "DOMLS"}
  Scanners = {"IGXMLScanner", "WFXMLScanner", "DGXMLScanner", "SGXMLScanner"}
  MaxReports = 3
INVARIANT ReturnSound
INVARIANT OneReturn
PROPERTY Closes
CHECK_DEADLOCK FALSE
