SPECIFICATION TSpec
CONSTANTS
  MaxId = 400
  NDocs = 2
  NNames = 4
  NStrs = 5
  MaxData = 100000
  MaxOps = 100000
  MaxKids = 100000
INVARIANT TreeInv
PROPERTY TFailedOpUnchanged
POSTCONDITION Accepted
CHECK_DEADLOCK FALSE
