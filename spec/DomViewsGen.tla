---------------------------- MODULE DomViewsGen ----------------------------
(* State injection for DomViews: used twice.
   (1) exhaustive check of the declarative layer (DomViewsGen.check*.cfg, no emitter): a BUILD phase enumerates
       every small tree, a VIEW phase creates and positions views (iterator steps, range boundaries, primed list
       caches), then up to MaxOps mutations and up to MaxPost list queries follow; all invariants and action
       properties of DomViews are checked on every state/step.
   (2) binder T (DomViewsGen.t*.cfg, ACTION_CONSTRAINT EmitT): one JSON line per transition after the build phase:
       <<tree at the end of the build phase, history of operations since then (the last one is the case), tree
       projection after it, observation after it>>.  The history variable is outside the VIEW: it is a witness
       path to the state, replayed by the harness. *)
EXTENDS DomViews, Json
CONSTANTS MaxViewOps, MaxPost, BuildKinds, GModes, GListNames, GKinds, GMut, GOkOnly, GFreshMaxId
VARIABLES phase, nv, np, hist, base
gvars == <<vvars, phase, nv, np, hist, base>>

ModeOf(m) == CASE m = "all" -> <<"all", "none">> [] m = "elem" -> <<"elem", "none">> [] m = "text" -> <<"text", "none">>
                 [] m = "allRejB" -> <<"all", "rejB">> [] m = "elemRejB" -> <<"elem", "rejB">> [] m = "allSkipB" -> <<"all", "skipB">>
GInit == VInit /\ phase = "build" /\ nv = 0 /\ np = 0 /\ hist = <<>> /\ base = <<>>

BuildNext ==
    \/ \E d \in Docs, nm \in Names : "elem" \in BuildKinds /\ CreateElement(d, nm)
    \/ \E d \in Docs, s \in Strs : \/ "text" \in BuildKinds /\ CreateText(d, s)
                                   \/ "comment" \in BuildKinds /\ CreateComment(d, s)
                                   \/ "cdata" \in BuildKinds /\ CreateCData(d, s)
    \/ \E d \in Docs : "frag" \in BuildKinds /\ CreateFragment(d)
    \/ \E p \in Live, c \in Live : kind[p] \in ParentKinds /\ parent[c] = 0 /\ kind[c] # "frag" /\ InsErrs(p, c, 0) = {} /\ AppendChild(p, c)

GViewNext ==
    \/ \E root \in Live, m \in GModes : "it" \in GKinds /\ CreateIterator(root, ModeOf(m)[1], ModeOf(m)[2])
    \/ \E i \in 1..NIt : ItNext(i) \/ ItPrev(i)
    \/ \E root \in Live, nm \in GListNames : "ls" \in GKinds /\ CreateList(root, nm)
    \/ \E l \in 1..NLs : ListLength(l) \/ \E idx \in 0..2 : ListItem(l, idx)
    \/ \E d \in Docs : "rg" \in GKinds /\ CreateRange(d)
    \/ \E r \in 1..NRg, n \in Live, off \in 0..(MaxData + 1), b \in BOOLEAN : RgSet(r, n, off, b)
GPostNext ==
    \/ \E l \in 1..NLs : ListLength(l) \/ \E idx \in 0..2 : ListItem(l, idx)
    \/ \E r \in 1..NRg, how \in 0..3 : RgCompare(r, r, how)

GMutNext ==
    \/ /\ "struct" \in GMut
       /\ \/ \E p \in Live, c \in Live : kind[p] # "attr" /\ (VAppendChild(p, c) \/ VRemoveChild(p, c))
          \/ \E p \in Live, c \in Live, r \in Live : kind[p] # "attr" /\ (VInsertBefore(p, c, r) \/ VReplaceChild(p, c, r))
          \/ \E d \in Docs, n \in Live : VAdoptNode(d, n)
          \/ \E n \in Live, off \in 0..(MaxData + 1) : VSplitText(n, off)
          \/ \E n \in Live : VNormalize(n)
    \/ /\ "text" \in GMut
       /\ \/ \E n \in Live, s \in Strs : VSetData(n, s) \/ VAppendData(n, s)
          \/ \E n \in Live, off \in 0..(MaxData + 1), s \in Strs : VInsertData(n, off, s)
          \/ \E n \in Live, off \in 0..(MaxData + 1), cnt \in 0..2 : VDeleteData(n, off, cnt)
          \/ \E n \in Live, off \in 0..(MaxData + 1), cnt \in 0..2, s \in Strs : VReplaceData(n, off, cnt, s)
Rec == [op |-> last', ret |-> ret']
GNext ==
    \/ /\ phase = "build" /\ BuildNext /\ last'.res = "ok"
       /\ UNCHANGED <<its, rgs, lss, wks, ret, phase, nv, np, hist, base, nops>>
    \/ /\ phase \in {"build", "view"} /\ nv < MaxViewOps /\ GViewNext
       /\ phase' = "view" /\ nv' = nv + 1 /\ hist' = Append(hist, Rec) /\ base' = (IF phase = "build" THEN Proj ELSE base)
       /\ UNCHANGED <<np, nops>>
    \/ /\ phase \in {"view", "mut"} /\ nops < MaxOps /\ GMutNext /\ (GOkOnly => last'.res = "ok")
       /\ ((\E i \in 1..Len(its) : its[i].cur = 0) => nextId <= GFreshMaxId + 1)   \* bound on the cases that meet the fresh-iterator defect
       /\ phase' = "mut" /\ nops' = nops + 1 /\ hist' = Append(hist, Rec)
       /\ UNCHANGED <<nv, np, base>>
    \/ /\ phase \in {"mut", "post"} /\ np < MaxPost /\ GPostNext
       /\ phase' = "post" /\ np' = np + 1 /\ hist' = Append(hist, Rec)
       /\ UNCHANGED <<nv, nops, base>>
GSpec == GInit /\ [][GNext]_gvars

EmitT == phase' # "build" => PrintT(ToJson(<<base', hist', ProjNext, ObsNext>>))
GView == <<tree, its, rgs, lss, phase, nv, np, nops>>

\* the action properties of DomViews, restated over this module's variables
GIterStable == [][phase' \in {"mut"} => \A i \in LiveIts : i \in 1..Len(its') /\ ~its'[i].det =>
                    \A n \in (DescW(W0, its[i].root) \cap DescW(W1, its[i].root)) \ MovedByLast :
                        (n \in BeforeSet(W0, its[i])) <=> (n \in BeforeSet(W1, its'[i]))]_gvars
GRangeMoves == [][phase' \in {"mut"} => \A r \in LiveRgs : r \in 1..Len(rgs') /\
            <<rgs'[r].sc, rgs'[r].so>> = MoveBP(<<rgs[r].sc, rgs[r].so>>) /\ <<rgs'[r].ec, rgs'[r].eo>> = MoveBP(<<rgs[r].ec, rgs[r].eo>>)]_gvars
GFailedOpUnchanged == [][last'.res # "ok" /\ last'.a \notin {"rg.setStart", "rg.setEnd"} => UNCHANGED <<tree, its, rgs>>]_gvars
=============================================================================
