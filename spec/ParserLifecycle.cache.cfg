SPECIFICATION Spec
CONSTANTS
  DocIds = {8, 11, 12}
  Loadable = {"A", "X"}
  Vals = {0, 1}
  MaxOps = 5
  MaxK = 0
  Feats = {"val", "use", "schema"}
  AsCoded = FALSE
  Extra = TRUE
  Forget = {}
INVARIANT TypeOK
INVARIANT OutcomeIsFunctionOfInputs
INVARIANT DeclaredVerdict
INVARIANT ResetEstablishesInit
INVARIANT ReaderStackEmptyWhenIdle
INVARIANT AdoptedIntact
INVARIANT StaleTokenRejected
INVARIANT ReferencedAreCached
INVARIANT CacheImpliesUse
PROPERTY PoolFrozenWhileLocked
PROPERTY StaleChangesNothing
CHECK_DEADLOCK FALSE
