SPECIFICATION Spec
CONSTANTS
  Reps = {65, 128, 144, 160, 193, 194, 224, 225, 237, 239, 240, 241, 244, 245}
  RepsLong = {65, 128, 144, 160, 193, 194, 224, 225, 237, 239, 240, 241, 244, 245}
  MaxLen = 4
  MaxChoices = {1, 64}
  SenseBytes = {0, 60, 63, 120, 109, 254, 255, 239, 187, 191, 76, 111, 167, 148, 65}
INVARIANT OutputIsDecodedPrefix
INVARIANT RejectOnlyIllFormed
INVARIANT DoneMeansAll
INVARIANT WellFormedNeverRejected
INVARIANT AutomatonIffDeclarative
INVARIANT OneCall
INVARIANT SenseUnambiguous
INVARIANT SenseSound
INVARIANT SenseComplete
INVARIANT ReconcileReports
CHECK_DEADLOCK FALSE
