SPECIFICATION GSpec
CONSTANTS
  AlphaSeq <- Alpha7
  MaxLen = 3
  Uni = "A2"
  OptRuns <- OptRunsStd
ACTION_CONSTRAINT EmitT
CHECK_DEADLOCK FALSE
