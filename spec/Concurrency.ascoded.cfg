SPECIFICATION Spec
CONSTANTS
  Threads = {1, 2}
  Slots = {1}
  Pools = {"SP1"}
  Strs = {1, 2}
  ConstStrs <- ConstPool1
  Grams = {1}
  Grams0 = {}
  RegLen0 = 0
  ProgChoices <- ChoicesCore2
  NoLock = {}
  LazyMap = TRUE
INVARIANTS TypeOK MutualExclusion OwnerConsistent AtMostOneLockHeld UniqueScannerIds ReadStable StringPoolIdsFunctional LockedPoolConstant BuiltIffPublished
PROPERTIES PoolAppendOnly Termination
CHECK_DEADLOCK TRUE
