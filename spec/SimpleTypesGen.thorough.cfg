SPECIFICATION GSpec
CONSTANTS
  GridSel = {"dec", "int", "dt", "date", "time", "gym", "gy", "gmd", "gd", "gm", "dur", "bool", "hex", "b64", "str", "name", "float", "list", "union"}
  FullTriples = FALSE
  Decorate = TRUE
ACTION_CONSTRAINT EmitT
CHECK_DEADLOCK FALSE
