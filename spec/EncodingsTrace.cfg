SPECIFICATION TSpec
CONSTANTS
  Reps = {65}
  RepsLong = {65}
  MaxLen = 1
  MaxChoices = {64}
  SenseBytes = {0}
INVARIANT Report
POSTCONDITION Accepted
CHECK_DEADLOCK FALSE
