SPECIFICATION WSpec
CONSTANTS
  DocIds = {1, 2, 3, 4, 5, 6, 7, 8, 9, 10}
  Loadable = {"A", "B"}
  Vals = {0, 1, 2}
  MaxOps = 25
  MaxK = 3
  Feats = {"val", "ns", "cache", "use"}
  AsCoded = FALSE
  Forget = {}
INVARIANT EmitW
INVARIANT OutcomeIsFunctionOfInputs
INVARIANT DeclaredVerdict
INVARIANT AdoptedIntact
CHECK_DEADLOCK FALSE
