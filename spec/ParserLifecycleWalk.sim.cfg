SPECIFICATION WSpec
CONSTANTS
  DocIds = {1, 2, 3, 4, 5, 6, 7, 8, 9, 10, 11, 12}
  Loadable = {"A", "B", "X"}
  Vals = {0, 1, 2}
  MaxOps = 25
  MaxK = 3
  Feats = {"val", "ns", "cache", "use", "schema"}
  AsCoded = FALSE
  Extra = TRUE
  Forget = {}
INVARIANT EmitW
INVARIANT OutcomeIsFunctionOfInputs
INVARIANT DeclaredVerdict
INVARIANT AdoptedIntact
CHECK_DEADLOCK FALSE
