---------------------------- MODULE NamespacesGen ----------------------------
(* Binders T and W for Namespaces: every case is one complete document.
   GSpec   (state injection): a BUILD phase enumerates contexts - open and already closed elements whose start
           tags only carry declarations - then every start tag of the tag universe is taken once as the PROBE;
           the document is closed and one line <<ver, tokens, expected SAX2 events, error?, expected DOM records>>
           is printed. The harness renders the tokens to XML text, parses it with every API x scanner and compares.
   BigSpec : one element declaring many prefixes (beyond ElemStack's initial map capacity of 16 and its first
           expansions), children using / shadowing them; and start tags with about 100 attributes (the duplicate
           check of the scanners changes algorithm above 100) two of which collide after expansion.
   WSpec   : random documents (tlc -simulate) over a larger universe, printed when complete. *)
EXTENDS Namespaces, Json
CONSTANTS BuildElems,      \* elements the build phase may start
          BuildDecls,      \* declarations per build start tag
          BuildPrefixSeq,  \* element prefixes of build start tags
          ProbeBudget      \* declarations + attributes of the probe tag
VARIABLE phase
gvars == <<vars, phase>>

\* compact forms for printing: declaration attributes carry "*" for their set of allowed URIs (DeclAttrEv: none
\* in SAX2's reading, XMLNSURI in the Infoset's and the DOM's); of the DOM record only the lookup tables are
\* printed, its ns/pf/ln/at fields are those of the element's start event (DomRec and EvStart take both from the frame)
CompactAttr(a) == IF a[4] = "decl" THEN <<"*", a[2], a[3]>> ELSE <<CHOOSE u \in a[1] : TRUE, a[2], a[3]>>
CompactEv(e) == IF e[1] = "se" THEN <<"se", e[2], e[3], e[4], [i \in 1..Len(e[5]) |-> CompactAttr(e[5][i])]>> ELSE e
CompactEvs(ev) == [i \in 1..Len(ev) |-> CompactEv(ev[i])]
CompactDom(r) == [lu |-> r.lu, lp |-> r.lp, df |-> r.df]
\* the document is complete: a start tag in error is closed too (the renderer writes well-formed text in every case)
Line == <<ver, doc \o (IF err THEN <<TokE>> ELSE <<>>) \o CloseToks(stack), CompactEvs(IF err THEN events ELSE events \o CloseEvents(stack)), err,
          [i \in 1..Len(dom) |-> CompactDom(dom[i])], last.errs, dtd>>

BuildNames == {<<BuildPrefixSeq[i], ELocal>> : i \in 1..Len(BuildPrefixSeq)}
BuildStart == \E q \in BuildNames, decls \in {d \in DeclSeqs : Len(d) <= BuildDecls} :
                 nelems < BuildElems /\ StartElement(q, decls, <<>>) /\ ~err'
BuildEnd == Len(stack) >= 2 /\ EndElement
Probe == \E q \in ElemNames, decls \in DeclSeqs, attrs \in AttrSeqs :
            Len(decls) + Len(attrs) <= ProbeBudget /\ StartElement(q, decls, attrs)
GInit == Init /\ phase = "build"
GNext == /\ phase = "build"
         /\ \/ (BuildStart \/ BuildEnd) /\ phase' = "build"
            \/ Probe /\ phase' = "done"
GSpec == GInit /\ [][GNext]_gvars
EmitT == phase' = "done" => PrintT(ToJson(Line'))

---------------------------------------------------------------------------
\* many prefixes on one element / many attributes in one tag
CONSTANTS BigNs,           \* numbers of prefixes declared on the root
          BigAttrNs        \* numbers of filler attributes
BigPrefix(i) == "n" \o ToString(i)
BigUri(i) == "urn:n" \o ToString(i)
BigDecls(n) == [i \in 1..n |-> <<BigPrefix(i), BigUri(i)>>]
\* lookups asked on the DOM side in this configuration
BigLookupPrefixes == <<"", "n1", "n2", "n16", "n17", "n20", "n21", "n25", "n26", "n40">>
BigLookupUris == <<"", "urn:n1", "urn:n16", "urn:n17", "urn:n21", "urn:n26", "urn:v">>
BigRoot == \E n \in BigNs : StartElement(<<"", ELocal>>, BigDecls(n), <<>>)
\* an outer element, so that the map that grows is not the first row of the element stack
BigOuter == nelems = 0 /\ StartElement(<<"", ELocal>>, <<<<"", "urn:n1">>, <<"n2", "urn:v">>>>, <<>>)
BigChild == LET n == Len(stack[Len(stack)].decls) IN
            \E k \in 1..(n + 1), j \in {1, n}, sh \in {0, 1, 2} :
               StartElement(<<BigPrefix(k), ELocal>>,
                            CASE sh = 0 -> <<>>
                              [] sh = 1 -> <<<<BigPrefix(k), "urn:v">>>>
                              [] sh = 2 -> <<<<BigPrefix(j), "urn:v">>, <<"", "urn:n1">>>>,
                            <<<<BigPrefix(j), "a">>, <<BigPrefix((k % n) + 1), "a">>>>)
\* root with two prefixes bound to one URI and n filler attributes; x:a (x = p or q) inserted at positions i < j
Filler(i) == <<"", "f" \o ToString(i)>>
WithPair(n, i, j, a, b) == [k \in 1..(n + 2) |-> IF k = i THEN a ELSE IF k = j THEN b ELSE Filler(k)]
BigAttrs == \E n \in BigAttrNs, u2 \in {"urn:u", "urn:v"} :
              \E pos \in {<<1, 2>>, <<1, n + 2>>, <<n + 1, n + 2>>, <<n \div 2, n + 2>>, <<2, n>>} :
               StartElement(<<"", ELocal>>, <<<<"p", "urn:u">>, <<"q", u2>>>>, WithPair(n, pos[1], pos[2], <<"p", "a">>, <<"q", "a">>))
BigInit == Init /\ phase = "big0"
BigNext == \/ phase = "big0" /\ BigOuter /\ phase' = "big0"
           \/ phase = "big0" /\ BigRoot /\ phase' = "big1"
           \/ phase = "big1" /\ BigChild /\ phase' = "done"
           \/ phase = "big0" /\ BigAttrs /\ phase' = "done"
BigSpec == BigInit /\ [][BigNext]_gvars

---------------------------------------------------------------------------
\* walks: behaviours of Spec itself; a deterministic Finish step makes the emitter fire once per behaviour
WInit == Init /\ phase = "walk"
WNext == \/ phase = "walk" /\ ~err /\ ~done /\ Next /\ phase' = "walk"
         \/ phase = "walk" /\ (err \/ done) /\ phase' = "fin" /\ UNCHANGED vars
WSpec == WInit /\ [][WNext]_gvars
EmitW == phase = "fin" => PrintT(ToJson(Line))
=============================================================================
