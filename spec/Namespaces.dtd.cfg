SPECIFICATION Spec
CONSTANTS
  PrefixSeq <- BasePrefixes
  UriSeq <- BaseUris
  ElemPrefixSeq <- BasePrefixes
  AttrPrefixSeq <- BasePrefixes
  LocalSeq <- LocalsA
  Versions = {"1.0"}
  MaxDepth = 2
  MaxElems = 50
  MaxDecls = 2
  MaxAttrs = 1
  DtdChoices <- DtdBase
INVARIANT NsInv
PROPERTY StepInv ErrorsExact
VIEW View
CHECK_DEADLOCK FALSE
