SPECIFICATION LSpec
CONSTANTS
  Cases <- LCases
INVARIANT EmitLargeDecl
CHECK_DEADLOCK FALSE
