SPECIFICATION LSpec
CONSTANTS
  Classes = {}
  MaxNodes = 0
  MaxChars = 0
  MaxVal = 0
  MaxDepth = 0
  LeafKinds = {}
  AttrRanks = {}
  ElemQNames = {}
  Cfgs = {}
  Lengths = {5461, 5462, 8192, 8193, 16385}
  LongClasses = {"p", "hi", "bmp", "sup"}
  LongKinds = {"text", "attr", "cdata", "comment"}
INVARIANT Uniform
CONSTRAINT EmitL
CHECK_DEADLOCK FALSE
