--------------------------- MODULE SimpleTypesGen ---------------------------
(* Case generator for property C09 (binder T / the value grids of binder V).  For every type of the
   selected families and every literal of the family's grid one line
      [k "val", ty, in, norm, valid, hc, canon, mem]
   and for every ordered pair of valid literals of an unrestricted ordered built-in one line
      [k "cmp", ty, in, norm, b, r]
   is printed; inputs and expectations come from the same specification (SimpleTypes).
   "norm" is the literal after the type's whitespace processing (what DatatypeValidator::validate
   is given by the scanner); "in" is the raw literal (what an instance document contains). *)
EXTENDS SimpleTypes
CONSTANT Decorate      \* TRUE: every grid literal also wrapped in blanks and in TAB .. LF
GenLits(fam) == IF Decorate THEN Deco(Fam[fam][2]) ELSE Fam[fam][2]
NormFor(ty, a) == IF ty.v = "a" THEN WsOp(EffWs(ty.b, ty.st), a) ELSE WsOp("collapse", a)
GValidate == /\ sel.op = "validate" /\ last = NoCall /\ UNCHANGED sel
             /\ \E s \in GenLits(sel.fam) : last' = [f |-> "validate", ty |-> sel.ty, a |-> Chars(s), b |-> <<>>, c |-> <<>>]
GCompare == /\ sel.op = "compare" /\ last = NoCall /\ UNCHANGED sel
            /\ \E y \in sel.lits : last' = [f |-> "compare", ty |-> sel.ty, a |-> Chars(sel.x), b |-> Chars(y), c |-> <<>>]
GNext == Select \/ GValidate \/ GCompare
GSpec == Init /\ [][GNext]_vars
CaseRec(l) ==
    IF l.f = "validate" THEN
        LET ok == ValidOp(l.ty, l.a)
            hc == ok /\ l.ty.v = "a" /\ HasCanon(l.ty.b)
        IN [k |-> "val", ty |-> l.ty, in |-> Str(l.a), norm |-> Str(NormFor(l.ty, l.a)), valid |-> ok, hc |-> hc,
            canon |-> IF hc THEN Str(CanonOp(l.ty, l.a)) ELSE "", mem |-> IF l.ty.v = "u" THEN MemberOf(l.ty, l.a) ELSE 0, tags |-> Tags(l.ty, l.a, <<>>)]
    ELSE [k |-> "cmp", ty |-> l.ty, in |-> Str(l.a), norm |-> Str(NormFor(l.ty, l.a)), b |-> Str(NormFor(l.ty, l.b)), r |-> CompareOp(l.ty, l.a, l.b), tags |-> Tags(l.ty, l.a, l.b)]
EmitT == last' # last => PrintT(ToJson(CaseRec(last')))
=============================================================================
