------------------------------ MODULE MemLedgerTrace ------------------------------
(* Binder V for MemLedger: the event stream recorded by harness/mem_harness.cpp from the real library (instrumented
   MemoryManagers, the library's own Init/Term hook events) is accepted iff every event is a ledger step the
   specification allows:  A only of an address that is not outstanding, and - for the global manager - only while the
   library is initialised (or being initialised / terminated);  D only of an outstanding block of that very manager
   (NoForeignFree, NoDoubleFree);  Destroy of the last object of a manager only with nothing outstanding
   (ObjectScopedNoLeak);  Init/Term counts follow the reference count, and the last Term leaves nothing outstanding
   in the global manager (BalancedInitTerm).  The ledger invariants of MemLedger are evaluated on every state. *)
EXTENDS MemLedger, Json, IOUtils, Sequences
Tr == ndJsonDeserialize(IOEnv.TRACE)
VARIABLE l
tvars == <<vars, l>>
E == Tr[l]
Rest == <<owner, mgrOf, cmode, prog, userDeleted, last, nops>>
LiveOf(m) == {o \in Objs : objs[o] # "none" /\ objMgr[o] = m}

TA == /\ E.e = "A" /\ E.m \in Mgrs /\ E.b >= 1
      /\ CanAlloc(E.m, E.b)
      /\ (E.m = "g" => GlobalUsable /\ globalMgr \in {"user", "none"})
      /\ (E.m # "g" => LiveOf(E.m) # {})
      /\ outstanding' = AfterAlloc(E.m, E.b)
      /\ UNCHANGED <<objs, objMgr, call, initCount, globalMgr, mgrAdopted, phase, Rest>>
TD == /\ E.e = "D" /\ E.m \in Mgrs
      /\ CanDealloc(E.m, E.b)
      /\ (E.m = "g" => GlobalUsable)
      /\ outstanding' = AfterDealloc(E.m, E.b)
      /\ UNCHANGED <<objs, objMgr, call, initCount, globalMgr, mgrAdopted, phase, Rest>>
TInitCall == /\ E.e = "InitCall" /\ phase = "idle" /\ call = 0 /\ phase' = "init"
             /\ UNCHANGED <<outstanding, objs, objMgr, call, initCount, globalMgr, mgrAdopted, Rest>>
TInit == /\ E.e = "Init" /\ phase = "init" /\ E.n = initCount + 1
         /\ initCount' = E.n /\ phase' = "idle"
         /\ IF initCount = 0 THEN /\ globalMgr' = E.m /\ mgrAdopted' = (E.o = 1) /\ (E.o = 1) = (E.m = "default")
                             ELSE UNCHANGED <<globalMgr, mgrAdopted>>
         /\ UNCHANGED <<outstanding, objs, objMgr, call, Rest>>
TTermCall == /\ E.e = "TermCall" /\ phase = "idle" /\ call = 0 /\ initCount > 0 /\ phase' = "term"
             /\ UNCHANGED <<outstanding, objs, objMgr, call, initCount, globalMgr, mgrAdopted, Rest>>
TTerm == /\ E.e = "Term" /\ phase = "term" /\ E.n = initCount - 1
         /\ initCount' = E.n /\ phase' = "idle"
         /\ IF E.n = 0 THEN outstanding["g"] = {} /\ globalMgr' = "none" /\ mgrAdopted' = FALSE
                       ELSE UNCHANGED <<globalMgr, mgrAdopted>>
         /\ UNCHANGED <<outstanding, objs, objMgr, call, Rest>>
TCreate == /\ E.e = "Create" /\ E.o \in Objs /\ objs[E.o] = "none" /\ E.m \in PMgrs /\ initCount > 0
           /\ objs' = [objs EXCEPT ![E.o] = IF E.n = 9 THEN "doc" ELSE "parser"] /\ objMgr' = [objMgr EXCEPT ![E.o] = E.m]
           /\ UNCHANGED <<outstanding, call, initCount, globalMgr, mgrAdopted, phase, Rest>>
TBegin == /\ E.e = "Begin" /\ call = 0 /\ phase = "idle" /\ objs[E.o] = "parser" /\ call' = E.o
          /\ UNCHANGED <<outstanding, objs, objMgr, initCount, globalMgr, mgrAdopted, phase, Rest>>
TEnd == /\ E.e = "End" /\ call = E.o /\ E.m \in {"ok", "fatal", "handler", "left-open"} /\ call' = 0
        /\ UNCHANGED <<outstanding, objs, objMgr, initCount, globalMgr, mgrAdopted, phase, Rest>>
TDestroyB == /\ E.e = "DestroyB" /\ call = 0 /\ objs[E.o] # "none" /\ call' = E.o
             /\ UNCHANGED <<outstanding, objs, objMgr, initCount, globalMgr, mgrAdopted, phase, Rest>>
TDestroy == /\ E.e = "Destroy" /\ call = E.o /\ call' = 0
            /\ objs' = [objs EXCEPT ![E.o] = "none"]
            /\ (LiveOf(objMgr[E.o]) = {E.o} => outstanding[objMgr[E.o]] = {})          \* ObjectScopedNoLeak at the last Destroy
            /\ UNCHANGED <<outstanding, objMgr, initCount, globalMgr, mgrAdopted, phase, Rest>>
TReset == /\ E.e = "Reset"
          /\ outstanding' = [m \in Mgrs |-> {}] /\ objs' = [o \in Objs |-> "none"] /\ objMgr' = [o \in Objs |-> "g"] /\ call' = 0
          /\ initCount' = 0 /\ globalMgr' = "none" /\ mgrAdopted' = FALSE /\ phase' = "idle" /\ UNCHANGED Rest
TSkip == E.e \in {"Done", "Crash"} /\ UNCHANGED vars

TInit0 == Init /\ l = 1
TNext == /\ l <= Len(Tr) /\ l' = l + 1
         /\ (TA \/ TD \/ TInitCall \/ TInit \/ TTermCall \/ TTerm \/ TCreate \/ TBegin \/ TEnd \/ TDestroyB \/ TDestroy \/ TReset \/ TSkip)
TSpec == TInit0 /\ [][TNext]_tvars
Accepted == /\ PrintT(<<"TRACE-RESULT", TLCGet("stats").diameter - 1, Len(Tr)>>)
            /\ TLCGet("stats").diameter - 1 = Len(Tr)
=============================================================================
