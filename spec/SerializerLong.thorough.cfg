SPECIFICATION LSpec
CONSTANTS
  Classes = {}
  MaxNodes = 0
  MaxChars = 0
  MaxVal = 0
  MaxDepth = 0
  LeafKinds = {}
  AttrRanks = {}
  ElemQNames = {}
  Cfgs = {}
  Lengths = {5461, 5462, 8191, 8192, 8193, 16384, 16385, 40000}
  LongClasses = {"p", "hi", "bmp", "sup", "amp", "lf", "gt"}
  LongKinds = {"text", "attr", "cdata", "comment"}
INVARIANT Uniform
CONSTRAINT EmitL
CHECK_DEADLOCK FALSE
