---------------------------- MODULE EncodingsGen ----------------------------
(* Generator for the binders of Encodings (property C05).
   - one PLAN line: which transcoders (name, kind, service, table law) and which representative byte values /
     units / UCS-4 words the harness must drive through transcodeFrom / transcodeTo (binder V records the calls,
     EncodingsTrace decides every record);
   - one line per ROW of the sensing / reconciliation table (binder T): a small document rendered BY THIS MODULE
     into bytes (Enc, byte-order marks, the EBCDIC invariant characters), with the expectation "content" (the
     parser must deliver exactly these characters and no error) or "reported" (some error-handler callback). *)
EXTENDS Encodings, Json

\* <<name given to makeNewTranscoderFor, kind, service, law of the table>>
EncList == <<
    <<"UTF-8", "utf8", "x", "">>, <<"ibm-1208", "utf8", "icu", "">>,
    <<"UTF-16LE", "utf16le", "x", "">>, <<"UTF-16BE", "utf16be", "x", "">>,
    <<"UnicodeLittleUnmarked", "utf16le", "icu", "">>, <<"UnicodeBigUnmarked", "utf16be", "icu", "">>,
    <<"UCS-4LE", "ucs4le", "x", "">>, <<"UCS-4BE", "ucs4be", "x", "">>,
    <<"UTF-32LE", "ucs4le", "icu", "">>, <<"UTF-32BE", "ucs4be", "icu", "">>,
    <<"ISO-8859-1", "sb", "x", "latin1">>, <<"US-ASCII", "sb", "x", "ascii">>, <<"WINDOWS-1252", "sb", "x", "cp1252">>,
    <<"IBM037", "sb", "x", "ebcdic">>, <<"IBM1047", "sb", "x", "ebcdic">>, <<"IBM1140", "sb", "x", "ibm1140">>,
    <<"ISO-8859-2", "sb", "icu", "iso8859">>, <<"ISO-8859-15", "sb", "icu", "iso885915">>,
    <<"windows-1251", "sb", "icu", "asciisuper">>, <<"KOI8-R", "sb", "icu", "asciisuper">>, <<"ibm-37", "sb", "icu", "ebcdic">> >>
Units16 == <<65, 55295, 55296, 56319, 56320, 57343, 57344, 65533>>
\* UCS-4 words, most significant byte first (TLC integers are 32 bit)
Words32 == << <<0, 0, 0, 65>>, <<0, 0, 215, 255>>, <<0, 0, 216, 0>>, <<0, 0, 220, 0>>, <<0, 0, 223, 255>>, <<0, 0, 224, 0>>,
              <<0, 1, 0, 0>>, <<0, 16, 255, 255>>, <<0, 17, 0, 0>>, <<4, 1, 0, 0>>, <<127, 255, 255, 255>>, <<128, 0, 0, 0>>, <<255, 255, 255, 255>> >>
RECURSIVE SetToSeq(_)
SetToSeq(S) == IF S = {} THEN <<>> ELSE LET x == CHOOSE y \in S : \A z \in S : y <= z IN <<x>> \o SetToSeq(S \ {x})
Plan == [plan |-> [encs |-> EncList, reps8 |-> SetToSeq(Reps), reps8long |-> SetToSeq(RepsLong), units16 |-> Units16, words32 |-> Words32,
                   sense |-> SetToSeq(SenseBytes), sense4 |-> SetToSeq(SenseBytes \ {32, 109, 111, 148, 167}), canon |-> <<Ucs4BPre, Ucs4LPre, U16BPre, U16LPre, AsciiPre \o <<118>>, EbcdicDecl \o <<165>>>>,
                   boundary |-> SetToSeq(BoundaryCps)]]

---------------------------------------------------------------------------
\* documents
Ascii(str) == str      \* strings are written as code point sequences below
\* EBCDIC invariant characters needed for an XML declaration and a small element (IBM037 = IBM1047 = IBM1140 here)
EbcdicOf(c) == CASE c \in 65..73 -> 193 + (c - 65) [] c \in 74..82 -> 209 + (c - 74) [] c \in 83..90 -> 226 + (c - 83)
                 [] c \in 97..105 -> 129 + (c - 97) [] c \in 106..114 -> 145 + (c - 106) [] c \in 115..122 -> 162 + (c - 115)
                 [] c \in 48..57 -> 240 + (c - 48)
                 [] c = 32 -> 64 [] c = 46 -> 75 [] c = 60 -> 76 [] c = 45 -> 96 [] c = 47 -> 97 [] c = 62 -> 110 [] c = 63 -> 111
                 [] c = 61 -> 126 [] c = 34 -> 127
EbcdicMap == [c \in ((32..34) \cup (45..63) \cup (65..90) \cup (97..122)) \ {33, 35, 58, 59} |-> EbcdicOf(c)]
\* <?xml version="1.0" encoding="
DeclHead == <<60, 63, 120, 109, 108, 32, 118, 101, 114, 115, 105, 111, 110, 61, 34, 49, 46, 48, 34, 32, 101, 110, 99, 111, 100, 105, 110, 103, 61, 34>>
DeclTail == <<34, 63, 62>>
Open == <<60, 97, 62>>
Close == <<60, 47, 97, 62>>
\* declared names as code point sequences, with their class
Names == [n \in {} |-> <<>>] @@
    ("UTF-8" :> <<85, 84, 70, 45, 56>>) @@ ("UTF-16" :> <<85, 84, 70, 45, 49, 54>>) @@ ("UTF-16LE" :> <<85, 84, 70, 45, 49, 54, 76, 69>>) @@
    ("UTF-16BE" :> <<85, 84, 70, 45, 49, 54, 66, 69>>) @@ ("UCS-4" :> <<85, 67, 83, 45, 52>>) @@ ("UCS-4LE" :> <<85, 67, 83, 45, 52, 76, 69>>) @@
    ("UCS-4BE" :> <<85, 67, 83, 45, 52, 66, 69>>) @@ ("ISO-8859-1" :> <<73, 83, 79, 45, 56, 56, 53, 57, 45, 49>>) @@
    ("US-ASCII" :> <<85, 83, 45, 65, 83, 67, 73, 73>>) @@ ("IBM037" :> <<73, 66, 77, 48, 51, 55>>) @@ ("IBM1140" :> <<73, 66, 77, 49, 49, 52, 48>>) @@
    ("IBM1047" :> <<73, 66, 77, 49, 48, 52, 55>>) @@ ("EBCDIC-CP-US" :> <<69, 66, 67, 68, 73, 67, 45, 67, 80, 45, 85, 83>>) @@
    ("WINDOWS-1252" :> <<87, 73, 78, 68, 79, 87, 83, 45, 49, 50, 53, 50>>) @@ ("ISO-8859-15" :> <<73, 83, 79, 45, 56, 56, 53, 57, 45, 49, 53>>)
ClassOfName(n) == CASE n = "UTF-16" -> "g16" [] n = "UCS-4" -> "g32" [] n \in {"UTF-16LE", "UTF-16BE", "UCS-4LE", "UCS-4BE"} -> n
                    [] n \in {"IBM037", "IBM1140", "IBM1047", "EBCDIC-CP-US"} -> "EBCDIC" [] OTHER -> "8bit"
\* kinds of byte material: the Unicode forms plus "ascii8" (one byte per character, identity below 256) and "ebcdic"
TKinds == Kinds \cup {"ascii8", "ebcdic"}
RECURSIVE MapAll(_, _)
MapAll(f, cs) == IF cs = <<>> THEN <<>> ELSE <<f[Head(cs)]>> \o MapAll(f, SubSeq(cs, 2, Len(cs)))
EncText(K, cs) == CASE K \in Kinds -> EncAll(K, cs) [] K = "ascii8" -> cs [] OTHER -> MapAll(EbcdicMap, cs)
Bom(K) == CASE K = "utf8" -> <<239, 187, 191>> [] K \in {"utf16le", "utf16be"} -> UnitBytes(K, 65279)
            [] K \in {"ucs4le", "ucs4be"} -> Ucs4Bytes(K, 65279) [] OTHER -> <<>>
Fam(K) == IF K = "ascii8" THEN "UTF-8" ELSE FamilyOfKind(K)

\* a row: bytes in kind K, optional BOM, declared name ("" = no declaration), character content, raw ill-formed bytes after it
DocBytes(K, bom, decl, cs, raw) ==
    (IF bom THEN Bom(K) ELSE <<>>)
    \o (IF decl = "" THEN <<>> ELSE EncText(K, DeclHead \o Names[decl] \o DeclTail))
    \o EncText(K, Open \o cs) \o raw \o EncText(K, Close)
Expect(K, bom, decl, raw) ==
    IF raw # <<>> THEN "reported"
    ELSE IF decl = "" THEN (IF K = "utf8" \/ (K \in {"utf16le", "utf16be"} /\ bom) THEN "content" ELSE "reported")
    ELSE IF DeclMatches(Fam(K), ClassOfName(decl)) THEN "content" ELSE "reported"
Row(K, bom, decl, cs, raw) ==
    [row |-> <<K, IF bom THEN 1 ELSE 0, decl>>, bytes |-> DocBytes(K, bom, decl, cs, raw), expect |-> Expect(K, bom, decl, raw),
     content |-> U16All(cs), raw |-> raw]

Uni == <<104, 233, 8364, 65536, 1114111, 65533>>     \* h e-acute euro U+10000 U+10FFFF U+FFFD
Asc == <<104, 105>>
Lat == <<104, 233, 255>>
UnicodeDecls(K) == {"", "UTF-8", "UTF-16", "UTF-16LE", "UTF-16BE", "UCS-4", "UCS-4LE", "UCS-4BE", "IBM037"}
IllRaw(K) ==
    CASE K = "utf8" -> {<<192, 128>>, <<237, 160, 128>>, <<244, 144, 128, 128>>, <<226, 130>>, <<128>>, <<224, 159, 191>>, <<240, 143, 191, 191>>,
                        <<248, 136, 128, 128, 128>>, <<237, 160, 128, 237, 176, 128>>, <<255>>, <<193, 191>>}
      [] K \in {"utf16le", "utf16be"} -> {UnitBytes(K, 56320), UnitBytes(K, 55296), UnitBytes(K, 56320) \o UnitBytes(K, 55296),
                                          UnitBytes(K, 55296) \o UnitBytes(K, 55296) \o UnitBytes(K, 56320)}
      [] OTHER -> {Ucs4Bytes(K, 55296) \o Ucs4Bytes(K, 56320), Ucs4Bytes(K, 57343), Ucs4Bytes(K, 1114112),
                   IF K = "ucs4be" THEN <<4, 1, 0, 0>> ELSE <<0, 0, 1, 4>>, IF K = "ucs4be" THEN <<255, 255, 255, 255>> ELSE <<255, 255, 255, 127>>,
                   IF K = "ucs4be" THEN <<128, 0, 0, 65>> ELSE <<65, 0, 0, 128>>}
Rows ==
    ({Row(K, bom, d, Uni, <<>>) : K \in Kinds, bom \in BOOLEAN, d \in UnicodeDecls("")} \ {Row(K, b, "", Uni, <<>>) : K \in {"ucs4le", "ucs4be"}, b \in BOOLEAN})
    \cup UNION {{Row(K, bom, d, Uni, raw) : bom \in BOOLEAN, d \in {n \in {"UTF-8", "UTF-16LE", "UTF-16BE", "UCS-4LE", "UCS-4BE"} : ClassOfName(n) = Fam(K) \/ (K = "utf8" /\ n = "UTF-8")},
                                            raw \in IllRaw(K)} : K \in Kinds}
    \cup {Row("utf8", bom, "", Uni, raw) : bom \in BOOLEAN, raw \in IllRaw("utf8")}
    \cup {Row("ascii8", FALSE, d, Asc, <<>>) : d \in {"UTF-8", "US-ASCII", "ISO-8859-1", "WINDOWS-1252", "ISO-8859-15", "UTF-16", "UCS-4", "UTF-16LE", "UCS-4BE", "IBM037", "IBM1140"}}
    \cup {Row("ascii8", FALSE, d, Lat, <<>>) : d \in {"ISO-8859-1", "WINDOWS-1252"}}
    \cup {Row("ascii8", FALSE, "US-ASCII", Asc, <<233>>)}
    \cup {Row("ebcdic", FALSE, d, Asc, <<>>) : d \in {"IBM037", "IBM1140", "IBM1047", "EBCDIC-CP-US", "UTF-8", "UTF-16", "UCS-4", "ISO-8859-1", "UTF-16BE"}}

VARIABLE g
GInit == Init /\ g = 0
GNext == g = 0 /\ g' = 1 /\ PrintT(ToJson(Plan)) /\ (\A r \in Rows : PrintT(ToJson(r))) /\ UNCHANGED vars
GSpec == GInit /\ [][GNext]_<<vars, g>>
=============================================================================
