--------------------------- MODULE ResourcesGen ---------------------------
(* Binder T for Resources: one JSON line per finished parse (configuration, document shape, expected
   ordered log of offers / answers / opens, expected verdict); the canary world is printed once. *)
EXTENDS Resources, Json
ASSUME PrintT(ToJson([world |-> World]))
EmitT == verdict \in {"ok", "fatal"} => PrintT(ToJson([cfg |-> cfg, doc |-> doc, log |-> log, fatal |-> (verdict = "fatal")]))
=============================================================================
