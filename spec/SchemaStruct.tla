---------------------------- MODULE SchemaStruct ----------------------------
(* XML Schema 1.0 Structures: validation of an instance against a typed schema model (property C08).

   SCHEMA MODEL (what the renderer turns into XSD text, table-driven):
     schema    [elems |-> <<global element declarations>>, types |-> <<named complex types>>, gattrs |-> <<global attributes>>]
               target namespace "t" (urn:t), elementFormDefault = qualified, attributeFormDefault = unqualified
     elemDecl  [name, type, nillable, abstract, subst (head name or ""), block (subset of {"substitution","extension",
               "restriction"}), vc ("" | "fixed" | "default"), val]
     typeDef   [name, kind ("empty" | "simple" | "elemOnly" | "mixed"), base, deriv ("" | "ext" | "res"), abstract, block,
               part (own particle or Nil), attrs <<attribute uses>>, anyAttr (Nil | <<ns, pc>>), stype (simple content type)]
     attrUse   [name, use ("required" | "optional" | "prohibited"), vc, val, stype]
     particle  uniform 6-tuple <<op, min, max, x, y, kids>>:
                 <<"elem", mn, mx, name, "ref" | local type name, Nil>>
                 <<"any",  mn, mx, namespace constraint, processContents, Nil>>
                 <<"seq" | "choice" | "all", mn, mx, "", "", <<particles>>>>          max INF = unbounded
   INSTANCE MODEL: node = 6-tuple <<ns, local name, xsi:type, xsi:nil, <<attributes <<ns, name, value>>>>, <<items>>>>;
     ns "t" = target namespace, "o" = another namespace without schema, "" = none; items that are not elements
     are nodes with ns "#": text ("x"), num ("7"), ws (" "), cmt (comment).

   DECLARATIVE layer (vocabulary of the recommendation):
     InLang(S, p, w)      Element Sequence Locally Valid (Particle), 3.9.4: w partitions into k sub-sequences,
                          min <= k <= max, each valid for the term; sequence/choice/all (3.8.4); Element Sequence Accepted
                          (3.9.4 cvc-accept); wildcards (3.10.4); substitution groups (3.3.6 cos-equiv-derived-ok)
     Valid(S, d, n)       Element Locally Valid (Element) 3.3.4 cvc-elt, (Type) cvc-type, (Complex Type) 3.4.4
                          cvc-complex-type, Attribute uses 3.5.4 / cvc-au, wildcard attributes cvc-wildcard
   OPERATIONAL layer (shape of the code):
     Expand / UseRepeatingLeaf     ComplexTypeInfo::convertContentSpecTree / expandContentModel / useRepeatingLeafNodes:
                                   occurrence ranges become ?,*,+, a COUNTING leaf (CMRepeatingLeaf + DFAContentModel's
                                   fCountingStates) or an unfolded sequence of copies
     Deriv / Nullable / Cons       one automaton step per child element (DFAContentModel transition + handleRepetitions
                                   counter; AllContentModel's seen-array), the end-tag acceptance test, and which leaf
                                   consumed the child (the scanners' laxElementValidation: skip / lax / strict)
     StartTag / FeedItem / EndTag  SchemaValidator::validateElement (xsi:type ladder, abstract, nillable), the scanners'
                                   attribute pass (buildAttList), character data flags, SchemaValidator::checkContent
     actions Open(h), Item(c), Close over one root element; child elements are macro steps (ErrsEl recursion).
   TLC checks Agree: when the root element is closed, "no error was raised" = Valid, and UPAClean: in every reachable
   automaton state at most one particle can consume the next child (so attribution is unique, as 3.8.6 requires). *)
EXTENDS Naturals, Integers, Sequences, FiniteSets, TLC
SeqX == INSTANCE SequencesExt

CONSTANTS MaxLen,      \* cap on the number of items under the root (each template has its own length, cut here)
          Templates    \* names of the templates of the family that are enumerated

INF == 99
Nil == <<>>
TNS == "t"
Builtins == {"xs:string", "xs:int"}

Range(s) == {s[i] : i \in 1..Len(s)}
Max0(i) == IF i < 0 THEN 0 ELSE i
Dec(mx) == IF mx = INF THEN INF ELSE mx - 1

(* ------------------------------------------------------------------ constructors *)
El(n, mn, mx) == <<"elem", mn, mx, n, "ref", Nil>>
Loc(n, ty, mn, mx) == <<"elem", mn, mx, n, ty, Nil>>
Wild(ns, pc, mn, mx) == <<"any", mn, mx, ns, pc, Nil>>
Grp(op, mn, mx, ks) == <<op, mn, mx, "", "", ks>>

ED(n, ty) == [name |-> n, type |-> ty, nillable |-> FALSE, abstract |-> FALSE, subst |-> "", block |-> {}, vc |-> "", val |-> ""]
CT(n, kind, part) == [name |-> n, kind |-> kind, base |-> "", deriv |-> "", abstract |-> FALSE, block |-> {}, part |-> part,
                      attrs |-> <<>>, anyAttr |-> Nil, stype |-> ""]
AU(n, use) == [name |-> n, use |-> use, vc |-> "", val |-> "", stype |-> "xs:string"]

Node(ns, nm, xt, nl, at, its) == <<ns, nm, xt, nl, at, its>>
E0(nm) == Node(TNS, nm, "", "", <<>>, <<>>)
TXT == Node("#", "text", "", "", <<>>, <<>>)
NUM == Node("#", "num", "", "", <<>>, <<>>)
WS == Node("#", "ws", "", "", <<>>, <<>>)
CMT == Node("#", "cmt", "", "", <<>>, <<>>)
IsEl(c) == c[1] # "#"
Elems(its) == SelectSeq(its, IsEl)
IsChar(c) == c[1] = "#" /\ c[2] \in {"text", "num", "ws"}
IsNonWs(c) == c[1] = "#" /\ c[2] \in {"text", "num"}
Chars(its) == SelectSeq(its, IsChar)
NonWs(its) == SelectSeq(its, IsNonWs)

(* ------------------------------------------------------------------ schema look-up *)
HasType(S, tn) == \E t \in Range(S.types) : t.name = tn
TypeDef(S, tn) == CHOOSE t \in Range(S.types) : t.name = tn
HasG(S, n) == \E d \in Range(S.elems) : d.name = n
GDecl(S, n) == CHOOSE d \in Range(S.elems) : d.name = n
HasGA(S, n) == \E a \in Range(S.gattrs) : a.name = n
GAttr(S, n) == CHOOSE a \in Range(S.gattrs) : a.name = n
LocalDecl(n, ty) == ED(n, ty)

KindOf(S, tn) == IF tn \in Builtins THEN "simple" ELSE TypeDef(S, tn).kind
STypeOf(S, tn) == IF tn \in Builtins THEN tn ELSE TypeDef(S, tn).stype
AbstractT(S, tn) == IF tn \in Builtins THEN FALSE ELSE TypeDef(S, tn).abstract
BlockT(S, tn) == IF tn \in Builtins THEN {} ELSE TypeDef(S, tn).block
BaseOf(S, tn) == IF tn \in Builtins THEN "" ELSE TypeDef(S, tn).base

(* {content type} particle of a complex type: extension appends (3.4.2), restriction replaces *)
RECURSIVE EffPart(_, _)
EffPart(S, tn) ==
  IF tn \in Builtins THEN Nil
  ELSE LET t == TypeDef(S, tn) IN
       IF t.deriv = "ext"
       THEN LET bp == EffPart(S, t.base) IN
            IF t.part = Nil THEN bp ELSE IF bp = Nil THEN t.part ELSE Grp("seq", 1, 1, <<bp, t.part>>)
       ELSE t.part

(* {attribute uses}: own uses, then inherited ones that are not overridden (3.4.2); prohibited uses stay listed *)
RECURSIVE EffAttrs(_, _)
EffAttrs(S, tn) ==
  IF tn \in Builtins THEN <<>>
  ELSE LET t == TypeDef(S, tn) IN
       IF t.base = "" THEN t.attrs
       ELSE LET own == {t.attrs[i].name : i \in 1..Len(t.attrs)}
                inh(a) == a.name \notin own
            IN t.attrs \o SelectSeq(EffAttrs(S, t.base), inh)
RECURSIVE EffAnyAttr(_, _)
EffAnyAttr(S, tn) ==
  IF tn \in Builtins THEN Nil
  ELSE LET t == TypeDef(S, tn) IN
       IF t.anyAttr # Nil \/ t.base = "" \/ t.deriv = "res" THEN t.anyAttr ELSE EffAnyAttr(S, t.base)

(* derivation methods on the path from type d up to its ancestor b ("#none" if b is not an ancestor-or-self) *)
RECURSIVE Chain(_, _, _)
Chain(S, d, b) == IF d = b THEN {}
                  ELSE IF BaseOf(S, d) = "" THEN {"#none"}
                  ELSE {IF TypeDef(S, d).deriv = "ext" THEN "extension" ELSE "restriction"} \cup Chain(S, BaseOf(S, d), b)
(* {prohibited substitutions} of the types strictly above d up to and including b *)
RECURSIVE BlocksAbove(_, _, _)
BlocksAbove(S, d, b) == IF d = b \/ BaseOf(S, d) = "" THEN {}
                        ELSE BlockT(S, BaseOf(S, d)) \cup BlocksAbove(S, BaseOf(S, d), b)
(* Type Derivation OK (Complex) 3.4.6 cos-ct-derived-ok: every step's method outside the blocking subset *)
DerivedOK(S, d, b, blocked) == LET c == Chain(S, d, b) IN "#none" \notin c /\ c \cap blocked = {}

(* Substitution Group OK (Transitive) 3.3.6 cos-equiv-derived-ok: member m may stand for head h *)
RECURSIVE Heads(_, _)
Heads(S, m) == IF ~HasG(S, m) \/ GDecl(S, m).subst = "" THEN {}
               ELSE {GDecl(S, m).subst} \cup Heads(S, GDecl(S, m).subst)
SubstOK(S, m, h) ==
  /\ HasG(S, m) /\ HasG(S, h) /\ h \in Heads(S, m)
  /\ "substitution" \notin GDecl(S, h).block
  /\ LET tm == GDecl(S, m).type
         th == GDecl(S, h).type
     IN DerivedOK(S, tm, th, GDecl(S, h).block \cup BlocksAbove(S, tm, th))

(* Wildcard allows Namespace Name 3.10.4 cvc-wildcard-namespace *)
NsOK(w, ns) ==
  CASE w = "##any" -> TRUE
    [] w = "##other" -> ns # TNS /\ ns # ""
    [] w = "##targetNamespace" -> ns = TNS
    [] w = "##local" -> ns = ""
    [] w = "##targetNamespace ##local" -> ns \in {TNS, ""}
    [] w = "urn:o" -> ns = "o"
    [] OTHER -> FALSE

(* the element name matches the element particle: same expanded name, or a member of the head's substitution group *)
ElemMatch(S, p, c) == c[1] = TNS /\ (c[2] = p[4] \/ (p[5] = "ref" /\ SubstOK(S, c[2], p[4])))
LeafMatch(S, p, c) == IF p[1] = "elem" THEN ElemMatch(S, p, c) ELSE NsOK(p[4], c[1])
(* the declaration an element particle supplies for child c *)
DeclFor(S, p, c) == IF c[2] = p[4] THEN (IF p[5] = "ref" THEN GDecl(S, p[4]) ELSE LocalDecl(p[4], p[5])) ELSE GDecl(S, c[2])

(* simple type validity of the character content (only what the structure rules need; datatypes are C09) *)
RECURSIVE StripL(_)
StripL(cs) == IF cs # <<>> /\ Head(cs) = WS THEN StripL(Tail(cs)) ELSE cs
RECURSIVE StripR(_)
StripR(cs) == IF cs # <<>> /\ cs[Len(cs)] = WS THEN StripR(SubSeq(cs, 1, Len(cs) - 1)) ELSE cs
Digits(its) == StripR(StripL(Chars(its)))          \* white space collapsed (xs:int: whiteSpace = collapse), comments dropped
ValidSimple(st, its) == IF st = "xs:int" THEN Digits(its) # <<>> /\ \A i \in 1..Len(Digits(its)) : Digits(its)[i] = NUM ELSE TRUE
ValidLex(st, v) == IF st = "xs:int" THEN v \in {"7", "8"} ELSE TRUE
(* the fixed value "x" (string) / "7" (int) equals the actual value *)
EqualsFixed(st, v, its) == IF st = "xs:int" THEN Digits(its) = <<NUM>> /\ v = "7"
                           ELSE Chars(its) = (IF v = "x" THEN <<TXT>> ELSE IF v = "7" THEN <<NUM>> ELSE <<>>)

(* ================================================================== DECLARATIVE layer *)
RECURSIVE Valid(_, _, _), InLang(_, _, _), InTerm(_, _, _), InSeq(_, _, _), Rep(_, _, _, _, _), ValidVia(_, _, _)

(* 3.9.4 / 3.10.4: child c is validated by leaf particle p (element declaration or wildcard with processContents) *)
ValidVia(S, p, c) ==
  /\ LeafMatch(S, p, c)
  /\ IF p[1] = "elem" THEN Valid(S, DeclFor(S, p, c), c)
     ELSE CASE p[5] = "skip" -> TRUE
            [] p[5] = "lax" -> (c[1] = TNS /\ HasG(S, c[2])) => Valid(S, GDecl(S, c[2]), c)
            [] p[5] = "strict" -> c[1] = TNS /\ HasG(S, c[2]) /\ Valid(S, GDecl(S, c[2]), c)

InAll(S, ks, w) ==
  /\ Len(w) <= Len(ks)
  /\ \E f \in [1..Len(w) -> 1..Len(ks)] :
        /\ \A i, j \in 1..Len(w) : i # j => f[i] # f[j]
        /\ \A i \in 1..Len(w) : ValidVia(S, ks[f[i]], w[i])
        /\ \A k \in 1..Len(ks) : (k \notin {f[i] : i \in 1..Len(w)}) => ks[k][2] = 0

InSeq(S, ks, w) ==
  IF ks = <<>> THEN w = <<>>
  ELSE \E i \in 0..Len(w) : InLang(S, Head(ks), SubSeq(w, 1, i)) /\ InSeq(S, Tail(ks), SubSeq(w, i + 1, Len(w)))

(* one occurrence of the term of p *)
InTerm(S, p, w) ==
  CASE p[1] \in {"elem", "any"} -> Len(w) = 1 /\ ValidVia(S, p, w[1])
    [] p[1] = "seq" -> InSeq(S, p[6], w)
    [] p[1] = "choice" -> \E k \in 1..Len(p[6]) : InLang(S, p[6][k], w)
    [] p[1] = "all" -> InAll(S, p[6], w)

(* w is k consecutive occurrences of the term, mn <= k <= mx (an empty occurrence only ever helps to reach mn) *)
Rep(S, p, w, mn, mx) ==
  \/ mn = 0 /\ w = <<>>
  \/ mn > 0 /\ mx > 0 /\ InTerm(S, p, <<>>) /\ Rep(S, p, w, mn - 1, Dec(mx))
  \/ mx > 0 /\ \E i \in 1..Len(w) : InTerm(S, p, SubSeq(w, 1, i)) /\ Rep(S, p, SubSeq(w, i + 1, Len(w)), Max0(mn - 1), Dec(mx))

InLang(S, p, w) == Rep(S, p, w, p[2], p[3])

(* cvc-complex-type.3 / .4 and cvc-au: attributes against {attribute uses} and {attribute wildcard} *)
UseOf(uses, a) == CHOOSE i \in 1..Len(uses) : uses[i].name = a[2]
HasUse(uses, a) == a[1] = "" /\ \E i \in 1..Len(uses) : uses[i].name = a[2] /\ uses[i].use # "prohibited"
AttrValid(S, tn, a) ==
  LET uses == EffAttrs(S, tn)
      aw == EffAnyAttr(S, tn)
  IN IF HasUse(uses, a)
     THEN LET u == uses[UseOf(uses, a)] IN ValidLex(u.stype, a[3]) /\ (u.vc = "fixed" => a[3] = u.val)
     ELSE /\ aw # Nil /\ NsOK(aw[1], a[1])
          /\ CASE aw[2] = "skip" -> TRUE
               [] aw[2] = "lax" -> (a[1] = TNS /\ HasGA(S, a[2])) => ValidLex(GAttr(S, a[2]).stype, a[3])
               [] aw[2] = "strict" -> a[1] = TNS /\ HasGA(S, a[2]) /\ ValidLex(GAttr(S, a[2]).stype, a[3])
AttrsValid(S, tn, n) ==
  LET uses == EffAttrs(S, tn) IN
  /\ \A i \in 1..Len(n[5]) : AttrValid(S, tn, n[5][i])
  /\ \A i \in 1..Len(uses) : uses[i].use = "required" => \E j \in 1..Len(n[5]) : n[5][j][1] = "" /\ n[5][j][2] = uses[i].name

(* cvc-complex-type.2 (content) with cvc-elt.5 (value constraint) for a non-nilled element of governing type tn *)
ContentValid(S, d, tn, n) ==
  LET its == n[6]
      kind == KindOf(S, tn)
  IN CASE kind = "empty" -> Elems(its) = <<>> /\ Chars(its) = <<>>
       [] kind = "simple" -> /\ Elems(its) = <<>>
                             /\ IF Chars(its) = <<>> /\ d.vc # "" THEN TRUE     \* the default / fixed value is used
                                ELSE /\ ValidSimple(STypeOf(S, tn), its)
                                     /\ d.vc = "fixed" => EqualsFixed(STypeOf(S, tn), d.val, its)
       [] kind = "elemOnly" -> /\ NonWs(its) = <<>>
                               /\ IF EffPart(S, tn) = Nil THEN Elems(its) = <<>> ELSE InLang(S, EffPart(S, tn), Elems(its))
       [] kind = "mixed" -> /\ IF EffPart(S, tn) = Nil THEN Elems(its) = <<>> ELSE InLang(S, EffPart(S, tn), Elems(its))
                            /\ (d.vc = "fixed" /\ (Elems(its) # <<>> \/ Chars(its) # <<>>))           \* cvc-elt.5.2.2
                                  => (Elems(its) = <<>> /\ EqualsFixed("xs:string", d.val, its))

(* Element Locally Valid (Element), d = the governing element declaration *)
Valid(S, d, n) ==
  /\ ~d.abstract                                                                          \* cvc-elt.2
  /\ n[4] # "" => d.nillable                                                              \* cvc-elt.3.1
  /\ n[4] = "true" => (Elems(n[6]) = <<>> /\ Chars(n[6]) = <<>> /\ d.vc # "fixed")        \* cvc-elt.3.2
  /\ n[3] # "" => /\ (n[3] \in Builtins \/ HasType(S, n[3]))                              \* cvc-elt.4.1, 4.2
                  /\ DerivedOK(S, n[3], d.type, (d.block \cup BlockT(S, d.type)) \ {"substitution"})   \* cvc-elt.4.3
  /\ LET tn == IF n[3] # "" THEN n[3] ELSE d.type IN
     /\ ~AbstractT(S, tn)                                                                 \* cvc-complex-type.1
     /\ AttrsValid(S, tn, n)                                                              \* cvc-complex-type.3, .4
     /\ n[4] # "true" => ContentValid(S, d, tn, n)                                        \* cvc-elt.5, cvc-complex-type.2

(* ================================================================== OPERATIONAL layer *)
(* ---- content model construction (ComplexTypeInfo) ---- *)
Leaf(p) == <<"leaf", p, Nil, Nil>>
Seq2(l, r) == <<"seq", Nil, l, r>>
Cho2(l, r) == <<"choice", Nil, l, r>>
Opt(l) == <<"opt", Nil, l, Nil>>
Star(l) == <<"star", Nil, l, Nil>>
Plus(l) == <<"plus", Nil, l, Nil>>
Cnt(l, mn, mx) == <<"cnt", <<mn, mx>>, l, Nil>>          \* counting state over a repeating leaf
AllN(ks, seen, opt) == <<"all", ks, seen, opt>>         \* AllContentModel: children, seen flags, fHasOptionalContent
Eps == <<"eps", Nil, Nil, Nil>>
None == <<"none", Nil, Nil, Nil>>

RECURSIVE UseRepeatingLeaf(_)
UseRepeatingLeaf(p) ==
  IF p[1] \in {"seq", "choice"}
  THEN IF p[2] # 1 \/ p[3] # 1
       THEN IF Len(p[6]) = 1 THEN LET q == p[6][1] IN q[1] \in {"elem", "any"} /\ q[2] = 1 /\ q[3] = 1
            ELSE Len(p[6]) = 0
       ELSE \A k \in 1..Len(p[6]) : UseRepeatingLeaf(p[6][k])
  ELSE TRUE

RECURSIVE Copies(_, _)
Copies(e, k) == IF k <= 1 THEN e ELSE Seq2(Copies(e, k - 1), e)
(* expandContentModel *)
ExpandOcc(e, isLeaf, mn, mx, compact) ==
  IF mx = 0 THEN Eps
  ELSE IF mn = 1 /\ mx = 1 THEN e
  ELSE IF mn = 0 /\ mx = 1 THEN Opt(e)
  ELSE IF mn = 0 /\ mx = INF THEN Star(e)
  ELSE IF mn = 1 /\ mx = INF THEN Plus(e)
  ELSE IF compact /\ isLeaf THEN Cnt(e, mn, mx)
  ELSE IF mx = INF THEN Seq2(Copies(e, mn - 1), Plus(e))
  ELSE IF mn = 0 THEN Copies(Opt(e), mx)
  ELSE IF mx = mn THEN Copies(e, mn)
  ELSE Seq2(Copies(e, mn), Copies(Opt(e), mx - mn))

RECURSIVE FoldBin(_, _), Expand(_, _)
FoldBin(op, es) == IF Len(es) = 1 THEN es[1]
                   ELSE LET l == FoldBin(op, SubSeq(es, 1, Len(es) - 1)) IN
                        IF op = "seq" THEN Seq2(l, es[Len(es)]) ELSE Cho2(l, es[Len(es)])
(* convertContentSpecTree *)
Expand(p, compact) ==
  CASE p[1] \in {"elem", "any"} -> ExpandOcc(Leaf(p), TRUE, p[2], p[3], compact)
    [] p[1] = "all" -> IF p[3] = 0 THEN Eps ELSE AllN(p[6], {}, p[2] = 0)
    [] OTHER -> IF p[6] = <<>> THEN Eps
                ELSE ExpandOcc(FoldBin(p[1], [k \in 1..Len(p[6]) |-> Expand(p[6][k], compact)]), FALSE, p[2], p[3], compact)
ContentModel(p) == IF p = Nil THEN Eps ELSE Expand(p, UseRepeatingLeaf(p))

(* ---- running the content model ---- *)
MkSeq(l, r) == IF l[1] = "none" \/ r[1] = "none" THEN None ELSE IF l[1] = "eps" THEN r ELSE IF r[1] = "eps" THEN l ELSE Seq2(l, r)
MkCho(l, r) == IF l[1] = "none" THEN r ELSE IF r[1] = "none" THEN l ELSE Cho2(l, r)

AllIdx(S, e, c) == {k \in 1..Len(e[2]) : LeafMatch(S, e[2][k], c)}
AllFirst(S, e, c) == CHOOSE k \in AllIdx(S, e, c) : \A j \in AllIdx(S, e, c) : k <= j

RECURSIVE Nullable(_)
Nullable(e) ==
  CASE e[1] = "eps" -> TRUE
    [] e[1] \in {"none", "leaf"} -> FALSE
    [] e[1] = "seq" -> Nullable(e[3]) /\ Nullable(e[4])
    [] e[1] = "choice" -> Nullable(e[3]) \/ Nullable(e[4])
    [] e[1] \in {"opt", "star"} -> TRUE
    [] e[1] = "plus" -> Nullable(e[3])
    [] e[1] = "cnt" -> e[2][1] = 0
    [] e[1] = "all" -> (e[3] = {} /\ e[4]) \/ \A k \in 1..Len(e[2]) : e[2][k][2] >= 1 => k \in e[3]

RECURSIVE Deriv(_, _, _)
Deriv(S, e, c) ==
  CASE e[1] \in {"eps", "none"} -> None
    [] e[1] = "leaf" -> IF LeafMatch(S, e[2], c) THEN Eps ELSE None
    [] e[1] = "seq" -> LET d == MkSeq(Deriv(S, e[3], c), e[4]) IN
                       IF Nullable(e[3]) THEN MkCho(d, Deriv(S, e[4], c)) ELSE d
    [] e[1] = "choice" -> MkCho(Deriv(S, e[3], c), Deriv(S, e[4], c))
    [] e[1] = "opt" -> Deriv(S, e[3], c)
    [] e[1] = "star" -> MkSeq(Deriv(S, e[3], c), e)
    [] e[1] = "plus" -> MkSeq(Deriv(S, e[3], c), Star(e[3]))
    [] e[1] = "cnt" -> IF e[2][2] > 0 /\ LeafMatch(S, e[3][2], c)                       \* ++loop <= maxOccurs
                       THEN Cnt(e[3], Max0(e[2][1] - 1), Dec(e[2][2])) ELSE None
    [] e[1] = "all" -> IF AllIdx(S, e, c) = {} \/ AllFirst(S, e, c) \in e[3] THEN None      \* unknown or duplicate
                       ELSE AllN(e[2], e[3] \cup {AllFirst(S, e, c)}, e[4])

(* leaf particles able to consume c now, leftmost first *)
RECURSIVE Cons(_, _, _)
Cons(S, e, c) ==
  CASE e[1] \in {"eps", "none"} -> <<>>
    [] e[1] = "leaf" -> IF LeafMatch(S, e[2], c) THEN <<e[2]>> ELSE <<>>
    [] e[1] = "seq" -> Cons(S, e[3], c) \o (IF Nullable(e[3]) THEN Cons(S, e[4], c) ELSE <<>>)
    [] e[1] = "choice" -> Cons(S, e[3], c) \o Cons(S, e[4], c)
    [] e[1] \in {"opt", "star", "plus"} -> Cons(S, e[3], c)
    [] e[1] = "cnt" -> IF e[2][2] > 0 /\ LeafMatch(S, e[3][2], c) THEN <<e[3][2]>> ELSE <<>>
    [] e[1] = "all" -> IF AllIdx(S, e, c) = {} \/ AllFirst(S, e, c) \in e[3] THEN <<>> ELSE <<e[2][AllFirst(S, e, c)]>>

(* ---- per-element validation ---- *)
RECURSIVE ErrsEl(_, _, _)

(* validateElement + attribute pass. Result: frame of the open element *)
XsiErrs(S, d, xt) ==
  IF xt = "" THEN (IF AbstractT(S, d.type) THEN {"abstract-type"} ELSE {})
  ELSE IF xt \notin Builtins /\ ~HasType(S, xt) THEN {"xsitype-bad"}
  ELSE IF AbstractT(S, xt) THEN {"abstract-type"}
  ELSE LET c == Chain(S, xt, d.type) IN
       IF "#none" \in c THEN {"xsitype-nonderived"}
       ELSE IF c \cap (d.block \cup BlockT(S, d.type)) # {} THEN {"xsitype-block"} ELSE {}

AttrErrs(S, tn, n) ==
  LET uses == EffAttrs(S, tn)
      aw == EffAnyAttr(S, tn)
      wild(a) ==                                       \* anyAttributeValidation
        IF aw = Nil \/ ~NsOK(aw[1], a[1]) THEN {"attr-notallowed"}
        ELSE IF aw[2] = "skip" THEN {}
        ELSE IF a[1] = TNS /\ HasGA(S, a[2]) THEN (IF ValidLex(GAttr(S, a[2]).stype, a[3]) THEN {} ELSE {"attr-value"})
        ELSE IF aw[2] = "strict" THEN {"attr-notallowed"} ELSE {}
      one(a) ==
        IF a[1] = "" /\ \E i \in 1..Len(uses) : uses[i].name = a[2]
        THEN LET u == uses[UseOf(uses, a)] IN
             IF u.use = "prohibited" THEN wild(a)        \* a prohibited use is no use: only the wildcard can admit it
             ELSE (IF ~ValidLex(u.stype, a[3]) THEN {"attr-value"} ELSE {})
                    \cup (IF u.vc = "fixed" /\ a[3] # u.val THEN {"attr-fixed"} ELSE {})
        ELSE wild(a)
      present == {n[5][j][2] : j \in {k \in 1..Len(n[5]) : n[5][k][1] = ""}}
  IN UNION {one(n[5][i]) : i \in 1..Len(n[5])}
       \cup (IF \E i \in 1..Len(uses) : uses[i].use = "required" /\ uses[i].name \notin present THEN {"attr-required"} ELSE {})

StartTag(S, d, n) ==
  LET xe == XsiErrs(S, d, n[3])
      tn == IF n[3] # "" /\ xe = {} THEN n[3] ELSE d.type        \* the type stack keeps the declared type on error
      nilErr == n[4] # "" /\ ~d.nillable
  IN [d |-> d, type |-> tn, kind |-> KindOf(S, tn),
      nil |-> (n[4] = "true" /\ d.nillable),
      resid |-> IF KindOf(S, tn) \in {"elemOnly", "mixed"} THEN ContentModel(EffPart(S, tn)) ELSE Eps,
      nEl |-> 0, chars |-> <<>>, upa |-> TRUE,
      errs |-> xe \cup (IF d.abstract THEN {"abstract-elem"} ELSE {})
                  \cup (IF nilErr THEN {"nil-notallowed"} ELSE {})
                  \cup AttrErrs(S, tn, n)]

(* errors of child c given the leaf particles that can consume it (laxElementValidation + scanStartTagNS) *)
ChildErrs(S, cons, c) ==
  LET lax == IF c[1] = TNS /\ HasG(S, c[2]) THEN ErrsEl(S, GDecl(S, c[2]), c) ELSE {} IN
  IF cons = <<>> THEN lax                                        \* the parent's content error is raised at its end tag
  ELSE LET p == Head(cons) IN
       IF p[1] = "elem" THEN ErrsEl(S, DeclFor(S, p, c), c)
       ELSE CASE p[5] = "skip" -> {}
              [] p[5] = "lax" -> lax
              [] p[5] = "strict" -> IF c[1] = TNS /\ HasG(S, c[2]) THEN lax ELSE {"undeclared"}

FeedItem(S, fr, c) ==
  IF ~IsEl(c) THEN (IF IsChar(c) THEN [fr EXCEPT !.chars = Append(@, c)] ELSE fr)
  ELSE IF fr.kind \in {"elemOnly", "mixed"}
  THEN LET cons == Cons(S, fr.resid, c) IN
       [fr EXCEPT !.nEl = @ + 1,
                  !.resid = Deriv(S, @, c),
                  !.upa = @ /\ Cardinality(Range(cons)) <= 1,
                  !.errs = @ \cup ChildErrs(S, cons, c)]
  ELSE [fr EXCEPT !.nEl = @ + 1, !.errs = @ \cup ChildErrs(S, <<>>, c)]

(* checkContent at the end tag *)
EndTag(S, fr) ==
  LET d == fr.d
      st == STypeOf(S, fr.type)
  IN fr.errs \cup
     (IF fr.nil
      THEN (IF fr.nEl > 0 \/ fr.chars # <<>> THEN {"nil-notempty"} ELSE {}) \cup (IF d.vc = "fixed" THEN {"nil-fixed"} ELSE {})
      ELSE CASE fr.kind = "empty" -> (IF fr.nEl > 0 THEN {"content"} ELSE {}) \cup (IF fr.chars # <<>> THEN {"chardata"} ELSE {})
             [] fr.kind = "simple" ->
                  IF fr.nEl > 0 THEN {"simplechild"}
                  ELSE IF fr.chars = <<>> /\ d.vc # "" THEN {}
                  ELSE (IF ValidSimple(st, fr.chars) THEN {} ELSE {"value"})
                         \cup (IF d.vc = "fixed" /\ ~EqualsFixed(st, d.val, fr.chars) THEN {"elem-fixed"} ELSE {})
             [] fr.kind = "elemOnly" -> (IF NonWs(fr.chars) # <<>> THEN {"chardata"} ELSE {})
                                          \cup (IF Nullable(fr.resid) THEN {} ELSE {"content"})
             [] fr.kind = "mixed" -> (IF Nullable(fr.resid) THEN {} ELSE {"content"})
                                       \cup (IF d.vc = "fixed" /\ (fr.nEl > 0 \/ fr.chars # <<>>)
                                                /\ (fr.nEl > 0 \/ ~EqualsFixed("xs:string", d.val, fr.chars))
                                             THEN {"elem-fixed"} ELSE {}))

RECURSIVE FeedAll(_, _, _)
FeedAll(S, fr, its) == IF its = <<>> THEN fr ELSE FeedAll(S, FeedItem(S, fr, Head(its)), Tail(its))
ErrsEl(S, d, n) == EndTag(S, FeedAll(S, StartTag(S, d, n), n[6]))

(* the whole document: the root must be a declared global element of the target namespace *)
DocErrs(S, n) == IF n[1] = TNS /\ HasG(S, n[2]) THEN ErrsEl(S, GDecl(S, n[2]), n) ELSE {"undeclared"}
DocValid(S, n) == n[1] = TNS /\ HasG(S, n[2]) /\ Valid(S, GDecl(S, n[2]), n)

(* ================================================================== the family of templates *)
Ranges == {<<0, 1>>, <<1, 1>>, <<0, INF>>, <<1, INF>>, <<2, 3>>, <<0, 2>>}
TE == CT("tE", "empty", Nil)
BaseElems == <<ED("r", "tR"), ED("a", "tE"), ED("b", "tE"), ED("c", "tE"), ED("d", "tE")>>
SchemaP(p, kind) == [elems |-> BaseElems, types |-> <<CT("tR", kind, p), TE>>, gattrs |-> <<>>]
H0 == <<TNS, "r", "", "", <<>>>>                       \* plain root start tag
Abad == Node(TNS, "a", "", "", <<>>, <<TXT>>)           \* declared element with content its (empty) type forbids
Ox == Node("o", "x", "", "", <<>>, <<>>)               \* element of a namespace no schema is known for
Nx == Node("", "x", "", "", <<>>, <<>>)                \* unqualified element
Ux == E0("u")                                          \* undeclared element of the target namespace
Len5 == MaxLen + 1          \* quick: MaxLen = 4
Len4 == MaxLen
Len3 == MaxLen - 1

Case(id, par, S, hdrs, alpha, len) == [id |-> id, par |-> par, schema |-> S, hdrs |-> hdrs, alpha |-> alpha, len |-> len,
                                       load |-> <<"ok", "ok">>]      \* schema load result without / with full checking

S1 == {Case("S1", <<r1, r2>>, SchemaP(Grp("seq", 1, 1, <<El("a", r1[1], r1[2]), El("b", r2[1], r2[2])>>), "elemOnly"),
            {H0}, {E0("a"), E0("b"), E0("c")}, Len5) : r1 \in Ranges, r2 \in Ranges}
S2 == {Case("S2", <<op, r>>, SchemaP(Grp(op, r[1], r[2], <<El("a", 1, 1), El("b", 1, 1)>>), "elemOnly"),
            {H0}, {E0("a"), E0("b"), E0("c")}, Len5) : op \in {"choice", "seq"}, r \in Ranges}
        \cup {Case("S2", <<"single", r>>, SchemaP(Grp("seq", r[1], r[2], <<El("a", 1, 1)>>), "elemOnly"),
            {H0}, {E0("a"), E0("b")}, Len5) : r \in Ranges}
S3 == {Case("S3", <<gm, ma, mb, mc>>,
            SchemaP(Grp("all", gm, 1, <<El("a", ma, 1), Loc("b", "tE", mb, 1), El("c", mc, 1)>>), kind),
            {H0}, {E0("a"), E0("b"), E0("c"), E0("d")}, Len4) : gm \in {0, 1}, ma \in {0, 1}, mb \in {0, 1}, mc \in {0, 1},
            kind \in {"elemOnly"}}
S4Parts == <<
  Grp("seq", 1, 1, <<El("a", 1, 1), Grp("choice", 0, INF, <<El("b", 1, 1), El("c", 1, 1)>>), El("d", 0, 1)>>),
  Grp("seq", 1, 1, <<El("a", 2, 3), Grp("choice", 0, INF, <<El("b", 1, 1), El("c", 1, 1)>>), El("d", 0, 1)>>),
  Grp("seq", 1, 1, <<El("a", 2, 3), Grp("choice", 1, 1, <<El("b", 0, 2), El("c", 1, 1)>>), El("d", 0, 1)>>),
  Grp("seq", 1, 1, <<El("a", 1, 1), Grp("choice", 0, 2, <<El("b", 1, 1), Grp("seq", 1, 1, <<El("c", 1, 1), El("d", 1, 1)>>)>>)>>),
  Grp("choice", 1, 1, <<Grp("seq", 2, 2, <<El("a", 1, 1), El("b", 0, 1)>>), El("c", 3, 4), Loc("d", "tE", 1, INF)>>),
  Grp("seq", 0, INF, <<El("a", 1, 1), Grp("choice", 1, 2, <<El("b", 1, 1), El("c", 1, 1)>>)>>),
  Grp("seq", 1, 1, <<El("a", 3, 3), El("b", 1, 1), El("a", 0, 2)>>),
  Grp("seq", 1, 1, <<El("a", 0, 0), El("b", 2, INF), El("c", 3, INF)>>),
  Grp("seq", 1, 1, <<El("a", 0, 0), El("b", 1, 2)>>)>>                      \* maxOccurs = 0: no particle at all (3.9.2)
S4 == {Case("S4", <<k>>, SchemaP(S4Parts[k], "elemOnly"), {H0}, {E0("a"), E0("b"), E0("c"), E0("d")}, Len5) : k \in 1..Len(S4Parts)}
S5 == {Case("S5", <<ns, pc, r>>, SchemaP(Grp("seq", 1, 1, <<El("a", 1, 1), Wild(ns, pc, r[1], r[2])>>), "elemOnly"),
            {H0}, {E0("a"), Abad, Ux, Ox, Nx}, Len3) :
            ns \in {"##any", "##other", "##targetNamespace", "##local", "##targetNamespace ##local"},
            pc \in {"strict", "lax", "skip"}, r \in {<<0, 1>>, <<1, 2>>}}

(* S8 xsi:nil *)
S8Types == <<CT("tR", "elemOnly", Grp("seq", 1, 1, <<El("a", 1, 1)>>)), TE, CT("tO", "elemOnly", El("a", 0, 1)),
             CT("tM", "mixed", El("a", 0, 1))>>
S8Case(ty, nl, vc, cn) ==
  Case("S8", <<ty, nl, vc, cn>>,
       [elems |-> <<[ED("r", ty) EXCEPT !.nillable = nl, !.vc = vc, !.val = "x"], [ED("a", "tE") EXCEPT !.nillable = cn]>>,
        types |-> S8Types, gattrs |-> <<>>],
       {<<TNS, "r", "", x, <<>>>> : x \in {"", "true", "false"}},
       {E0("a"), TXT, NUM, WS, CMT}, 2)
S8 == {S8Case(ty, nl, "", cn) : ty \in {"tR", "tE", "tO", "tM", "xs:string"}, nl \in BOOLEAN, cn \in BOOLEAN}
        \cup {S8Case(ty, nl, vc, FALSE) : ty \in {"tM", "xs:string"}, nl \in BOOLEAN, vc \in {"fixed", "default"}}

(* S9 attribute uses *)
S9Attrs == {<<>>, <<<<"", "p", "x">>>>, <<<<"", "q", "x">>>>, <<<<"", "q", "y">>>>, <<<<"", "p", "x">>, <<"", "q", "x">>>>,
            <<<<"", "p", "x">>, <<"", "q", "y">>>>, <<<<"", "p", "x">>, <<"o", "z", "1">>>>, <<<<"", "p", "x">>, <<"", "w", "1">>>>,
            <<<<"o", "z", "1">>>>, <<<<"", "w", "1">>>>, <<<<"", "p", "x">>, <<TNS, "ga", "7">>>>, <<<<"", "p", "x">>, <<TNS, "ga", "x">>>>,
            <<<<"", "p", "x">>, <<TNS, "gu", "7">>>>, <<<<"", "n", "7">>>>, <<<<"", "n", "x">>, <<"", "p", "x">>>>}
S9 == {Case("S9", <<pu, qv, aw>>,
            [elems |-> <<ED("r", "tR")>>,
             types |-> <<[CT("tR", "empty", Nil) EXCEPT
                            !.attrs = <<AU("p", pu), [AU("q", "optional") EXCEPT !.vc = qv, !.val = "x"],
                                        [AU("n", "optional") EXCEPT !.stype = "xs:int"]>>,
                            !.anyAttr = aw]>>,
             gattrs |-> <<[AU("ga", "optional") EXCEPT !.stype = "xs:int"]>>],
            {<<TNS, "r", "", "", at>> : at \in S9Attrs}, {}, 0) :
            pu \in {"required", "optional", "prohibited"}, qv \in {"", "fixed", "default"},
            aw \in {Nil, <<"##other", "skip">>, <<"##any", "strict">>, <<"##any", "lax">>, <<"##local", "skip">>,
                    <<"##targetNamespace", "strict">>}}

(* S10 content kinds *)
S10 == {Case("S10", <<ty>>,
             [elems |-> <<ED("r", ty), ED("a", "tE")>>,
              types |-> <<TE, CT("tO", "elemOnly", El("a", 0, 1)), CT("tM", "mixed", El("a", 0, 1)),
                          [CT("tS", "simple", Nil) EXCEPT !.stype = "xs:string"], [CT("tI", "simple", Nil) EXCEPT !.stype = "xs:int"],
                          CT("tX", "mixed", Nil)>>,
              gattrs |-> <<>>],
             {H0}, {E0("a"), TXT, NUM, WS, CMT}, Len3) :
             ty \in {"tE", "tO", "tM", "tS", "tI", "tX", "xs:string", "xs:int"}}

(* S6 substitution groups: head h of type tB; members of the same type, of an extension, of a restriction *)
S6Types == <<CT("tR", "elemOnly", Grp("seq", 1, 1, <<El("h", 0, 2)>>)), TE,
             CT("tB", "elemOnly", Grp("seq", 1, 1, <<El("a", 0, 1)>>)),
             [CT("tD", "elemOnly", Grp("seq", 1, 1, <<El("b", 0, 1)>>)) EXCEPT !.base = "tB", !.deriv = "ext"],
             [CT("tS", "elemOnly", Grp("seq", 1, 1, <<El("a", 1, 1)>>)) EXCEPT !.base = "tB", !.deriv = "res"]>>
Mb == Node(TNS, "m2", "", "", <<>>, <<E0("b")>>)
Hb == Node(TNS, "h", "", "", <<>>, <<E0("b")>>)
S6 == {Case("S6", <<ha, hb, tb, ma>>,
            [elems |-> <<ED("r", "tR"), ED("a", "tE"), ED("b", "tE"), ED("c", "tE"),
                         [ED("h", "tB") EXCEPT !.abstract = ha, !.block = hb],
                         [ED("m1", "tB") EXCEPT !.subst = "h", !.abstract = ma], [ED("m2", "tD") EXCEPT !.subst = "h"],
                         [ED("m3", "tS") EXCEPT !.subst = "h"], [ED("m4", "tD") EXCEPT !.subst = "m1"]>>,
             types |-> [S6Types EXCEPT ![3].block = tb], gattrs |-> <<>>],
            {H0}, {E0("h"), E0("m1"), E0("m2"), E0("m3"), E0("m4"), E0("c"), Mb, Hb}, 2) :
            ha \in BOOLEAN, hb \in {{}, {"substitution"}, {"extension"}, {"restriction"}}, tb \in {{}, {"extension"}, {"restriction"}},
            ma \in BOOLEAN}

(* S7 xsi:type on the root: base tB, extension tX, extension of the extension tY, restriction tS, unrelated tU, abstract tA *)
S7Types(tbAbs, tbBlock) ==
  <<[CT("tB", "elemOnly", Grp("seq", 1, 1, <<El("a", 0, 1)>>)) EXCEPT !.abstract = tbAbs, !.block = tbBlock], TE,
    [CT("tX", "elemOnly", Grp("seq", 1, 1, <<El("b", 0, 1)>>)) EXCEPT !.base = "tB", !.deriv = "ext"],
    [CT("tY", "elemOnly", Grp("seq", 1, 1, <<El("c", 0, 1)>>)) EXCEPT !.base = "tX", !.deriv = "ext"],
    [CT("tS", "elemOnly", Grp("seq", 1, 1, <<El("a", 1, 1)>>)) EXCEPT !.base = "tB", !.deriv = "res"],
    [CT("tZ", "elemOnly", Grp("seq", 1, 1, <<El("a", 1, 1), El("b", 1, 1)>>)) EXCEPT !.base = "tX", !.deriv = "res"],
    CT("tU", "elemOnly", Grp("seq", 1, 1, <<El("a", 0, 1)>>)),
    [CT("tA", "elemOnly", Grp("seq", 1, 1, <<El("b", 0, 1)>>)) EXCEPT !.base = "tB", !.deriv = "ext", !.abstract = TRUE]>>
S7 == {Case("S7", <<rb, ta, tb>>,
            [elems |-> <<[ED("r", "tB") EXCEPT !.block = rb], ED("a", "tE"), ED("b", "tE"), ED("c", "tE")>>,
             types |-> S7Types(ta, tb), gattrs |-> <<>>],
            {<<TNS, "r", x, "", <<>>>> : x \in {"", "tB", "tX", "tY", "tS", "tZ", "tU", "tA", "tQ", "xs:string"}},
            {E0("a"), E0("b"), E0("c")}, 2) :
            rb \in {{}, {"extension"}, {"restriction"}, {"extension", "restriction"}}, ta \in BOOLEAN,
            tb \in {{}, {"extension"}, {"restriction"}}}

(* S14 element value constraints *)
S14Types == <<TE, CT("tM", "mixed", Grp("seq", 1, 1, <<El("a", 0, 1)>>)), [CT("tC", "simple", Nil) EXCEPT !.stype = "xs:string"],
              [CT("tI", "simple", Nil) EXCEPT !.stype = "xs:int"]>>
S14 == {Case("S14", <<ty, vc>>,
             [elems |-> <<[ED("r", ty) EXCEPT !.vc = vc, !.val = IF ty \in {"xs:int", "tI"} THEN "7" ELSE "x"], ED("a", "tE")>>,
              types |-> S14Types, gattrs |-> <<>>],
             {H0}, {TXT, NUM, WS, CMT} \cup (IF ty = "tM" THEN {E0("a")} ELSE {}), 2) :
             ty \in {"xs:string", "xs:int", "tC", "tI", "tM"}, vc \in {"default", "fixed"}}

(* ---- S13 Unique Particle Attribution (3.8.6 cos-nonambig) ----
   Leaves carry a tag in their last slot so that two particles with equal content stay distinct.
   Declarative: LastAttr(S, p, w) = the leaf particles the LAST item of w can be attributed to when w is read as the
   beginning of some word of L(p); UPA holds iff that is never more than one particle.
   Operational: the automaton built from the expanded content model never has two different particles able to
   consume the next child (what DFAContentModel::checkUniqueParticleAttribution looks for state by state). *)
ElT(n, mn, mx, tag) == <<"elem", mn, mx, n, "ref", <<tag>>>>
WildT(ns, pc, mn, mx, tag) == <<"any", mn, mx, ns, pc, <<tag>>>>
RECURSIVE LastAttr(_, _, _), LastTerm(_, _, _), LastSeq(_, _, _), LastRep(_, _, _, _)
LastTerm(S, p, w) ==        \* w non-empty, read as the beginning of ONE occurrence of the term
  CASE p[1] \in {"elem", "any"} -> IF Len(w) = 1 /\ LeafMatch(S, p, w[1]) THEN {p} ELSE {}
    [] p[1] = "seq" -> LastSeq(S, p[6], w)
    [] p[1] = "choice" -> UNION {LastAttr(S, p[6][k], w) : k \in 1..Len(p[6])}
    [] p[1] = "all" -> {}
LastSeq(S, ks, w) ==
  IF ks = <<>> THEN {}
  ELSE LastAttr(S, Head(ks), w)
         \cup UNION {IF InLang(S, Head(ks), SubSeq(w, 1, i)) THEN LastSeq(S, Tail(ks), SubSeq(w, i + 1, Len(w))) ELSE {} : i \in 0..(Len(w) - 1)}
LastRep(S, p, w, mx) ==
  IF mx = 0 THEN {}
  ELSE LastTerm(S, p, w)
         \cup UNION {IF InTerm(S, p, SubSeq(w, 1, i)) THEN LastRep(S, p, SubSeq(w, i + 1, Len(w)), Dec(mx)) ELSE {} : i \in 1..(Len(w) - 1)}
LastAttr(S, p, w) == LastRep(S, p, w, p[3])
WordsUpTo(A, n) == UNION {[1..k -> A] : k \in 1..n}
UPADecl(S, p, A, n) == \A w \in WordsUpTo(A, n) : Cardinality(LastAttr(S, p, w)) <= 1

RECURSIVE ReachUPA(_, _, _, _)
ReachUPA(S, e, A, n) ==        \* every automaton state reachable within n children has at most one consumer per child
  \A c \in A : /\ Cardinality(Range(Cons(S, e, c))) <= 1
               /\ (n > 1 /\ Deriv(S, e, c)[1] # "none") => ReachUPA(S, Deriv(S, e, c), A, n - 1)
UPAOp(S, p, A, n) == ReachUPA(S, ContentModel(p), A, n)

S13Parts == <<
  Grp("seq", 1, 1, <<ElT("a", 0, 1, 1), ElT("a", 1, 1, 2)>>),                       \* (a?, a)
  Grp("choice", 1, 1, <<ElT("a", 1, 1, 1), ElT("a", 1, 1, 2)>>),                    \* (a | a)
  Grp("seq", 1, 1, <<ElT("a", 0, INF, 1), ElT("a", 1, 1, 2)>>),                     \* (a*, a)
  Grp("seq", 1, 1, <<ElT("a", 0, 1, 1), WildT("##any", "lax", 1, 1, 2)>>),          \* (a?, any)
  Grp("seq", 1, 1, <<WildT("##targetNamespace", "lax", 0, INF, 1), ElT("b", 1, 1, 2)>>),   \* (any{tns}*, b)
  Grp("seq", 1, 1, <<ElT("a", 2, 3, 1), ElT("a", 1, 1, 2)>>),                       \* (a{2,3}, a)
  Grp("choice", 1, 1, <<Grp("seq", 1, 1, <<ElT("a", 1, 1, 1), ElT("b", 1, 1, 2)>>), Grp("seq", 1, 1, <<ElT("a", 1, 1, 3), ElT("c", 1, 1, 4)>>)>>),
  Grp("seq", 1, 1, <<Grp("choice", 0, INF, <<ElT("a", 1, 1, 1), ElT("b", 1, 1, 2)>>), ElT("b", 0, 1, 3)>>),     \* ((a|b)*, b?)
  \* unambiguous controls
  Grp("seq", 1, 1, <<ElT("a", 0, 1, 1), ElT("b", 1, 1, 2)>>),
  Grp("seq", 1, 1, <<ElT("a", 3, 3, 1), ElT("a", 1, 1, 2)>>),                       \* (a{3,3}, a): the counter decides
  Grp("seq", 1, 1, <<ElT("a", 1, 1, 1), WildT("##other", "lax", 0, 2, 2)>>),
  Grp("seq", 1, 1, <<ElT("a", 0, 2, 1), ElT("b", 0, INF, 2), WildT("##local", "skip", 0, 1, 3)>>),
  Grp("choice", 1, 1, <<Grp("seq", 1, 1, <<ElT("a", 1, 1, 1), ElT("b", 1, 1, 2)>>), Grp("seq", 1, 1, <<ElT("c", 1, 1, 3), ElT("a", 1, 1, 4)>>)>>)
>>
S13Alpha == {E0("a"), E0("b"), E0("c"), Nx}
(* a schema whose only question is whether it loads: UPA violations are reported iff full checking is on *)
Case13(k) == [Case("S13", <<k>>, SchemaP(S13Parts[k], "elemOnly"), {}, {}, 0) EXCEPT
                 !.load = <<"ok", IF UPAOp(SchemaP(S13Parts[k], "elemOnly"), S13Parts[k], S13Alpha, 4) THEN "ok" ELSE "error">>]
S13 == {Case13(k) : k \in 1..Len(S13Parts)}

(* ---- S11 derivation: extension appends particles and attribute uses, restriction narrows them (3.4.2, 3.4.6) ----
   RestrictOK is Particle Valid (Restriction) 3.9.6 for the shapes of this template: sequence:sequence by rcase-Recurse
   (order preserving, skipped base particles emptiable), element:element by rcase-NameAndTypeOK (occurrence range
   containment). Its violation is a schema error reported under full checking only. *)
RECURSIVE Recurse(_, _)
Recurse(rk, bk) ==
  IF rk = <<>> THEN \A i \in 1..Len(bk) : bk[i][2] = 0
  ELSE IF bk = <<>> THEN FALSE
  ELSE \/ /\ Head(rk)[4] = Head(bk)[4] /\ Head(rk)[2] >= Head(bk)[2] /\ Head(rk)[3] <= Head(bk)[3]
          /\ Recurse(Tail(rk), Tail(bk))
       \/ /\ Head(bk)[2] = 0 /\ Recurse(rk, Tail(bk))
RestrictOK(r, b) == r[1] = "seq" /\ b[1] = "seq" /\ r[2] = 1 /\ r[3] = 1 /\ b[2] = 1 /\ b[3] = 1 /\ Recurse(r[6], b[6])

S11Base == Grp("seq", 1, 1, <<El("a", 0, 1), El("b", 1, 2)>>)
S11Res == <<Grp("seq", 1, 1, <<El("b", 1, 1)>>),                         \* a dropped, b narrowed
            Grp("seq", 1, 1, <<El("a", 1, 1), El("b", 2, 2)>>),          \* a required
            Grp("seq", 1, 1, <<El("a", 0, 1), El("b", 1, 3)>>),          \* b widened: not a restriction
            Grp("seq", 1, 1, <<El("a", 0, 2), El("b", 1, 2)>>),          \* a widened: not a restriction
            Grp("seq", 1, 1, <<El("b", 1, 2), El("a", 0, 1)>>),          \* order changed: not a restriction
            Grp("seq", 1, 1, <<El("a", 0, 1)>>)>>                        \* required b dropped: not a restriction
S11Types(k, pu) ==
  <<[CT("tB", "elemOnly", S11Base) EXCEPT !.attrs = <<AU("p", "optional")>>], TE,
    [CT("tX", "elemOnly", Grp("seq", 1, 1, <<El("c", 0, 1)>>)) EXCEPT !.base = "tB", !.deriv = "ext", !.attrs = <<AU("q", "required")>>],
    [CT("tY", "elemOnly", Grp("seq", 1, 1, <<El("a", 1, 1)>>)) EXCEPT !.base = "tX", !.deriv = "ext"],
    [CT("tS", "elemOnly", S11Res[k]) EXCEPT !.base = "tB", !.deriv = "res", !.attrs = <<AU("p", pu)>>]>>
S11Schema(ty, k, pu) == [elems |-> <<ED("r", ty), ED("a", "tE"), ED("b", "tE"), ED("c", "tE")>>, types |-> S11Types(k, pu), gattrs |-> <<>>]
S11Hdrs == {<<TNS, "r", "", "", at>> : at \in {<<>>, <<<<"", "p", "x">>>>, <<<<"", "q", "x">>>>, <<<<"", "p", "x">>, <<"", "q", "x">>>>}}
S11 == {IF RestrictOK(S11Res[k], S11Base)
        THEN Case("S11", <<ty, k, pu>>, S11Schema(ty, k, pu), S11Hdrs, {E0("a"), E0("b"), E0("c")}, Len4)
        ELSE [Case("S11", <<ty, k, pu>>, S11Schema(ty, k, pu), {}, {}, 0) EXCEPT !.load = <<"ok", "error">>] :
        ty \in {"tX", "tY", "tS"}, k \in 1..Len(S11Res), pu \in {"optional", "required", "prohibited"}}
(* what restriction is for: every instance of the restricted model is an instance of the base model *)
RECURSIVE WordsLE(_, _)
WordsLE(A, n) == IF n = 0 THEN {<<>>} ELSE WordsLE(A, n - 1) \cup {Append(w, c) : w \in WordsLE(A, n - 1), c \in A}
RestrictSound == \A k \in 1..Len(S11Res) :
                    RestrictOK(S11Res[k], S11Base) =>
                       \A w \in WordsLE({E0("a"), E0("b"), E0("c")}, 4) :
                          InLang(S11Schema("tS", k, "optional"), S11Res[k], w) => InLang(S11Schema("tS", k, "optional"), S11Base, w)
ASSUME RestrictSound

Family == [S1 |-> S1, S2 |-> S2, S3 |-> S3, S4 |-> S4, S5 |-> S5, S6 |-> S6, S7 |-> S7, S8 |-> S8, S9 |-> S9, S10 |-> S10, S11 |-> S11, S13 |-> S13, S14 |-> S14]
Cases == UNION {Family[t] : t \in Templates}

(* ================================================================== state machine over one root element *)
CaseSeq == SeqX!SetToSeq(Cases)          \* evaluated once; states carry only the index

VARIABLES cas,      \* the case (schema + instance alphabet): index into CaseSeq
          hdr,      \* start tag of the root (Nil before Open)
          items,    \* items fed so far
          fr,       \* frame of the root element (validator state)
          verdict   \* Nil while open, <<errs>> after Close
vars == <<cas, hdr, items, fr, verdict>>
CS == CaseSeq[cas]

NoFrame == [d |-> ED("", ""), type |-> "", kind |-> "", nil |-> FALSE, resid |-> Eps, nEl |-> 0, chars |-> <<>>, upa |-> TRUE, errs |-> {}]

Init == /\ cas \in 1..Len(CaseSeq)
        /\ hdr = Nil /\ items = <<>> /\ fr = NoFrame /\ verdict = Nil

Open(h) == /\ hdr = Nil
           /\ hdr' = h
           /\ fr' = StartTag(CS.schema, GDecl(CS.schema, h[2]), Node(h[1], h[2], h[3], h[4], h[5], <<>>))
           /\ UNCHANGED <<cas, items, verdict>>

Item(c) == /\ hdr # Nil /\ verdict = Nil
           /\ Len(items) < CS.len
           /\ items' = Append(items, c)
           /\ fr' = FeedItem(CS.schema, fr, c)
           /\ UNCHANGED <<cas, hdr, verdict>>

Close == /\ hdr # Nil /\ verdict = Nil
         /\ verdict' = <<EndTag(CS.schema, fr)>>
         /\ UNCHANGED <<cas, hdr, items, fr>>

Next == (\E h \in CS.hdrs : Open(h)) \/ (\E c \in CS.alpha : Item(c)) \/ Close
Spec == Init /\ [][Next]_vars

DocOf == Node(hdr[1], hdr[2], hdr[3], hdr[4], hdr[5], items)
(* the listed property on the specification *)
Agree == verdict # Nil => ((verdict[1] = {}) <=> DocValid(CS.schema, DocOf))
(* the step-wise machine and the recursive reading used by the generator are the same function *)
SameAsFold == verdict # Nil => verdict[1] = DocErrs(CS.schema, DocOf)
(* Unique Particle Attribution holds for every schema of the family meant to be valid *)
UPAClean == fr.upa
(* S13: the automaton reading of UPA agrees with the declarative one (attribution of the last item of every prefix) *)
UPAAgree == CS.id = "S13" => LET p == S13Parts[CS.par[1]] IN
                             UPAOp(CS.schema, p, S13Alpha, 4) = UPADecl(CS.schema, p, S13Alpha, 4)
=============================================================================
